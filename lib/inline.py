"""Virtual inlining of *new private helpers*.

The rules are anchored in the functions of the reference tree (fixtures/reference_functions.json: every function name of the
tree the rules were confirmed on, with its parameter types). A function that is not in that list, has internal linkage, is
not recursive and whose address is not taken is a helper somebody introduced later — typically by extracting a block of an
existing function. Analysing the caller without it would make every path rule about the caller fail for a reason that has
nothing to do with behaviour, so such a helper is spliced back into each of its call sites before any rule runs:

  * its nodes are cloned behind the caller's nodes (ids shifted, declaration ids of its locals/parameters made unique per site),
  * a parameter that is never re-assigned and whose argument is a plain local/parameter of the caller is replaced by that
    variable (copy propagation); any other parameter becomes a synthetic `DeclStmt` initialised from the argument expression,
  * `return e;` becomes the assignment `__ret = e` (a plain no-op node for `return;`), the call node itself becomes a reference
    to `__ret` that has the cloned body as its child; `*out` for an argument `&x` becomes `x`,
  * the caller's CFG block is cut at the call: [.. args] -> callee entry ... callee exit -> [call value, rest ..].

Nothing is inlined on the reference tree itself (there are no new functions), so the reference behaviour of every rule is
untouched. The transformation only ever *adds* the helper's effects to the caller's paths; it never drops any.
"""
import json, os

HERE = os.path.dirname(os.path.abspath(__file__))
REF_PATH = os.path.join(HERE, "..", "fixtures", "reference_functions.json")
ID_ATTRS = ("fn", "cond", "then", "else", "body", "init", "inc", "ptr", "order", "order_fail", "val1", "val2")
_ref = None


def reference():
    global _ref
    if _ref is None:
        try:
            with open(REF_PATH) as f:
                _ref = json.load(f)
        except OSError:
            _ref = {}
    return _ref


def _callees(fd):
    return [n.get("callee") for n in fd["nodes"] if n["k"] == "CallExpr" and n.get("callee")]


def _addr_taken(functions):
    taken = set()
    for fd in functions:
        callee_nodes = {n["fn"] for n in fd["nodes"] if n["k"] == "CallExpr" and "fn" in n}
        # a DeclRefExpr to a function that is not (under its decay cast) the callee operand of a call
        parent = {}
        for i, n in enumerate(fd["nodes"]):
            for c in n["c"]:
                if c >= 0:
                    parent.setdefault(c, i)
        for i, n in enumerate(fd["nodes"]):
            if n["k"] == "DeclRefExpr" and n.get("dk") == "fn":
                x = i
                while x in parent and fd["nodes"][parent[x]]["k"] in ("ImplicitCastExpr", "ParenExpr"):
                    x = parent[x]
                if x not in callee_nodes:
                    taken.add(n["n"])
    return taken


def candidates(d):
    ref = reference()
    if not ref:
        return {}
    fns = [fd for fd in d["functions"] if "miverif_probe" not in fd["file"]]
    by = {}
    for fd in fns:
        by.setdefault(fd["name"], []).append(fd)
    taken = _addr_taken(fns)
    out = {}
    for name, lst in by.items():
        fd = lst[0]
        if name in ref or not fd.get("static") or fd.get("cfg") is None or name in taken or len(lst) > 1:
            continue
        out[name] = fd
    # drop recursive ones (directly or through other candidates)
    def reaches(a, target, seen):
        for c in _callees(out[a]):
            if c == target:
                return True
            if c in out and c not in seen:
                seen.add(c)
                if reaches(c, target, seen):
                    return True
        return False
    return {n: fd for n, fd in out.items() if not reaches(n, n, set())}


def _clone_nodes(H, off, dmap, subst):
    """copies of H's nodes with node ids shifted by off, declaration ids mapped through dmap, parameter references
    replaced through subst (pid -> (d, n, dk))"""
    out = []
    for n in H["nodes"]:
        m = dict(n)
        m["c"] = [(c + off if c >= 0 else c) for c in n["c"]]
        if "args" in n:
            m["args"] = [a + off for a in n["args"]]
        for k in ID_ATTRS:
            if k in n and isinstance(n[k], int):
                m[k] = n[k] + off
        if n["k"] == "ReturnStmt" and "val" in n:
            m["val"] = n["val"] + off
        if n["k"] == "DeclRefExpr" and "d" in n:
            if n["d"] in subst:
                m["d"], m["n"], m["dk"] = subst[n["d"]]
            elif n["d"] in dmap:
                m["d"] = dmap[n["d"]]
                if m.get("dk") == "parm":
                    m["dk"] = "local"
        if n["k"] == "DeclStmt":
            m["decls"] = []
            for dd in n["decls"]:
                e = dict(dd)
                e["d"] = dmap.get(dd["d"], dd["d"])
                if "init" in dd:
                    e["init"] = dd["init"] + off
                m["decls"].append(e)
        out.append(m)
    return out


def _assigned_params(H):
    """parameters of H that are written or whose address is taken inside H"""
    N = H["nodes"]
    bad = set()
    pids = set(H.get("pids", []))

    def strip(i):
        while N[i]["k"] in ("ParenExpr", "ImplicitCastExpr", "CStyleCastExpr") and N[i]["c"]:
            i = N[i]["c"][0]
        return i
    for n in N:
        k = n["k"]
        tgt = None
        if (k == "BinaryOperator" and n.get("op") == "=") or k == "CompoundAssignOperator":
            tgt = strip(n["c"][0])
        elif k == "UnaryOperator" and n.get("op") in ("post++", "post--", "pre++", "pre--", "&"):
            tgt = strip(n["c"][0])
        if tgt is not None and N[tgt]["k"] == "DeclRefExpr" and N[tgt].get("d") in pids:
            bad.add(N[tgt]["d"])
    return bad


def inline_site(F, call, H, site_no):
    """splice H into F at the call node `call`; returns True when done"""
    N = F["nodes"]
    cfg = F["cfg"]
    blocks = cfg["blocks"]
    where = None
    for b in blocks:
        if call in b["elems"]:
            where = (b, b["elems"].index(call))
            break
    if where is None:
        return False
    B, k = where
    cn = N[call]
    args = cn.get("args", [])
    if len(args) != len(H.get("pids", [])):
        return False
    off = len(N)
    stride = 1000003 * (site_no + 1)
    own = set(H.get("pids", []))
    for n in H["nodes"]:
        if n["k"] == "DeclStmt":
            own.update(dd["d"] for dd in n["decls"])
    dmap = {d: d + stride for d in own}
    assigned = _assigned_params(H)

    def strip(i):
        while N[i]["k"] in ("ParenExpr", "ImplicitCastExpr") and N[i]["c"] and (N[i]["k"] == "ParenExpr" or N[i].get("ck") in ("LValueToRValue", "NoOp")):
            i = N[i]["c"][0]
        return i
    subst = {}
    deref = {}
    temps = []
    for pid, a, pinfo in zip(H["pids"], args, H["params"]):
        j = strip(a)
        if pid not in assigned and N[j]["k"] == "DeclRefExpr" and N[j].get("dk") in ("local", "parm"):
            subst[pid] = (N[j]["d"], N[j]["n"], N[j]["dk"])
            continue
        if pid not in assigned and N[j]["k"] == "UnaryOperator" and N[j].get("op") == "&":
            x = strip(N[j]["c"][0])
            if N[x]["k"] == "DeclRefExpr" and N[x].get("dk") in ("local", "parm"):
                deref[pid] = (N[x]["d"], N[x]["n"], N[x]["dk"], N[x].get("t", ""))   # out-parameter: `*param` is that variable
        temps.append((pid, a, pinfo))
    clones = _clone_nodes(H, off, dmap, subst)
    N.extend(clones)
    if deref:
        HN = H["nodes"]

        def hstrip(i):
            while HN[i]["k"] in ("ParenExpr", "ImplicitCastExpr") and HN[i]["c"] and (HN[i]["k"] == "ParenExpr" or HN[i].get("ck") in ("LValueToRValue", "NoOp")):
                i = HN[i]["c"][0]
            return i
        for i, n in enumerate(HN):
            if n["k"] == "UnaryOperator" and n.get("op") == "*":
                t = hstrip(n["c"][0])
                if HN[t]["k"] == "DeclRefExpr" and HN[t].get("d") in deref:
                    d_, n_, dk_, t_ = deref[HN[t]["d"]]
                    m = N[i + off]
                    keep = {k_: m[k_] for k_ in ("ln", "col", "file", "lv") if k_ in m}
                    m.clear()
                    m.update(keep)
                    m.update({"k": "DeclRefExpr", "c": [], "d": d_, "n": n_, "dk": dk_, "t": t_, "lv": True, "inl_out": True})
    # returns -> assignments to the result variable
    rv = max(dmap.values(), default=stride) + 1 + site_no
    for i in range(off, off + len(clones)):
        n = N[i]
        if n["k"] == "ReturnStmt":
            if "val" in n:
                ref_id = len(N)
                N.append({"k": "DeclRefExpr", "c": [], "n": "__ret_" + H["name"], "d": rv, "dk": "local", "t": H.get("ret", ""), "ln": n.get("ln"), "lv": True})
                v = n["val"]
                n.clear()
                n.update({"k": "BinaryOperator", "op": "=", "c": [ref_id, v], "t": H.get("ret", ""), "inl_ret": True})
                N[ref_id]["ln"] = N[v].get("ln")
            else:
                n.clear()
                n.update({"k": "NullStmt", "c": [], "inl_ret": True})
    # parameter temporaries
    temp_nodes = []
    for pid, a, pinfo in temps:
        tid = len(N)
        N.append({"k": "DeclStmt", "c": [a], "ln": cn.get("ln"), "inl_param": True,
                  "decls": [{"d": dmap[pid], "n": pinfo["n"], "t": pinfo["t"], "init": a}]})
        temp_nodes.append(tid)
    # the call node now stands for the result and owns the cloned body
    keep = {k_: cn[k_] for k_ in ("ln", "col", "file", "t", "w", "macro", "bo", "eo", "rf") if k_ in cn}
    cn.clear()
    cn.update(keep)
    cn.update({"k": "DeclRefExpr", "c": temp_nodes + [H["body"] + off], "inlined": H["name"], "d": rv, "n": "__ret_" + H["name"], "dk": "local"})
    # CFG splice
    maxid = max(b["id"] for b in blocks)
    bmap = {}
    hblocks = []
    for hb in H["cfg"]["blocks"]:
        maxid += 1
        bmap[hb["id"]] = maxid
    for hb in H["cfg"]["blocks"]:
        nb = {"id": bmap[hb["id"]], "elems": [e + off for e in hb["elems"]],
              "succs": [(bmap[s] if s >= 0 else s) for s in hb["succs"]],
              "psuccs": [(bmap[s] if s >= 0 else s) for s in hb.get("psuccs", [])]}
        for k_ in ("term", "cond", "label"):
            if k_ in hb:
                nb[k_] = hb[k_] + off
        for k_ in ("tk", "noret"):
            if k_ in hb:
                nb[k_] = hb[k_]
        hblocks.append(nb)
    maxid += 1
    cont = {"id": maxid, "elems": [call] + B["elems"][k + 1:], "succs": B["succs"], "psuccs": B.get("psuccs", [])}
    for k_ in ("term", "tk", "cond", "noret"):
        if k_ in B:
            cont[k_] = B.pop(k_)
    B["elems"] = B["elems"][:k] + temp_nodes
    B["succs"] = [bmap[H["cfg"]["entry"]]]
    B["psuccs"] = [-1]
    hexit = bmap[H["cfg"]["exit"]]
    for nb in hblocks:
        if nb["id"] == hexit:
            nb["succs"] = [cont["id"]]
            nb["psuccs"] = [-1]
    blocks.extend(hblocks)
    blocks.append(cont)
    return True


def _sig(fd):
    return {n.get("callee") for n in fd["nodes"] if n["k"] == "CallExpr" and n.get("callee")} | {"." + n["fld"] for n in fd["nodes"] if n["k"] == "MemberExpr"}


def resolve_renames(d, config, root):
    """A reference function with internal linkage that is missing, while a *new* internal function of the same file has the
    same parameter types (possibly in another order), the same return type and essentially the same body signature (callees and
    fields touched), was renamed and/or had its parameters re-ordered. The analysis is anchored in the reference names and
    parameter positions, so the new function is presented under the old name with the old parameter order (call sites
    included). Returns the list of (old name, new name, permutation)."""
    ref = reference()
    if not ref:
        return []
    fns = [fd for fd in d["functions"] if "miverif_probe" not in fd["file"]]
    present = {fd["name"] for fd in fns}
    gone = [r for r, e in ref.items() if e.get("static") and config in e.get("configs", []) and r not in present]
    new = [fd for fd in fns if fd["name"] not in ref and fd.get("static") and fd.get("cfg") is not None]
    done = []
    used = set()
    for r in sorted(gone):
        e = ref[r]
        best = None
        for fd in new:
            if id(fd) in used or fd["file"].replace(root.rstrip("/") + "/", "") != e["file"]:
                continue
            if sorted(p["t"] for p in fd["params"]) != sorted(e["params"]) or fd.get("ret", "") != e.get("ret", fd.get("ret", "")):
                continue
            a, b = _sig(fd), set(e.get("sig", []))
            score = len(a & b) / float(len(a | b)) if (a | b) else 1.0
            if best is None or score > best[0]:
                best = (score, fd)
        if best is None or best[0] < 0.7:
            continue
        fd = best[1]
        used.add(id(fd))
        # parameter permutation: reference position k takes the first unused parameter of that type
        perm, taken = [], set()
        for t in e["params"]:
            k = next(i for i, p in enumerate(fd["params"]) if p["t"] == t and i not in taken)
            taken.add(k)
            perm.append(k)
        old_name = fd["name"]
        fd["name"] = r
        fd["renamed_from"] = old_name
        fd["params"] = [fd["params"][k] for k in perm]
        fd["pids"] = [fd["pids"][k] for k in perm]
        for F in d["functions"]:
            for n in F["nodes"]:
                if n["k"] == "CallExpr" and n.get("callee") == old_name:
                    n["callee"] = r
                    if len(n.get("args", [])) == len(perm):
                        n["args"] = [n["args"][k] for k in perm]
                elif n["k"] == "DeclRefExpr" and n.get("dk") == "fn" and n.get("n") == old_name:
                    n["n"] = r
        done.append((r, old_name, perm))
    # same name, parameters re-ordered (a permutation of the reference types): present them in the reference order
    for fd in fns:
        e = ref.get(fd["name"])
        if e is None or not e.get("static") or not fd.get("static") or "renamed_from" in fd:
            continue
        cur = [p["t"] for p in fd["params"]]
        if cur == e["params"] or sorted(cur) != sorted(e["params"]):
            continue
        perm, taken = [], set()
        for t in e["params"]:
            k = next(i for i, p in enumerate(fd["params"]) if p["t"] == t and i not in taken)
            taken.add(k)
            perm.append(k)
        fd["params"] = [fd["params"][k] for k in perm]
        fd["pids"] = [fd["pids"][k] for k in perm]
        for F in d["functions"]:
            for n in F["nodes"]:
                if n["k"] == "CallExpr" and n.get("callee") == fd["name"] and len(n.get("args", [])) == len(perm):
                    n["args"] = [n["args"][k] for k in perm]
        done.append((fd["name"], fd["name"], perm))
    return done


def drift(d, config):
    """reference functions with internal linkage that are (still) missing from this configuration, or whose parameter types
    differ from the reference: rules anchored in them cannot decide anything on this tree"""
    ref = reference()
    present = {}
    for fd in d["functions"]:
        present.setdefault(fd["name"], fd)
    out = {}
    for r, e in ref.items():
        if config not in e.get("configs", []):
            continue
        if r not in present:
            if e.get("static"):
                out[r] = "vanished (renamed, inlined into its callers or removed)"
        elif [p["t"] for p in present[r]["params"]] != e["params"]:
            out[r] = "signature changed from (%s) to (%s)" % (", ".join(e["params"]), ", ".join(p["t"] for p in present[r]["params"]))
    return out


def apply(d):
    """inline every new private helper of the extraction result d (in place); returns the list of (caller, helper) pairs"""
    cand = candidates(d)
    if not cand:
        return []
    done = []
    # callee-first: helpers that call other new helpers get those inlined first
    order = []
    seen = set()

    def visit(n):
        if n in seen:
            return
        seen.add(n)
        for c in _callees(cand[n]):
            if c in cand:
                visit(c)
        order.append(n)
    for n in sorted(cand):
        visit(n)
    site_no = 0
    for hname in order:
        H = cand[hname]
        for F in d["functions"]:
            if F is H or F.get("cfg") is None or "miverif_probe" in F["file"]:
                continue
            while True:
                calls = [i for i, n in enumerate(F["nodes"]) if n["k"] == "CallExpr" and n.get("callee") == hname]
                if not calls:
                    break
                if not inline_site(F, calls[0], H, site_no):
                    F["nodes"][calls[0]]["callee_not_inlined"] = True
                    F["nodes"][calls[0]]["callee"] = hname + "#"   # leave it alone (and do not loop forever)
                    break
                site_no += 1
                done.append((F["name"], hname))
    for F in d["functions"]:
        for n in F["nodes"]:
            if n.get("callee_not_inlined"):
                n["callee"] = n["callee"].rstrip("#")
    # the helpers themselves stay in the program (rules that enumerate all functions still see their bodies once)
    return done
