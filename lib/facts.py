"""Fact loading for the mimalloc rules: compilation database -> mifacts -> Program/Fn objects.

Nothing of /repo is executed; the only tools run are cmake/ninja (to obtain the unit list and
flags of the real build) and /verif/build/mifacts (clang 14 front end + CFG builder).
"""
import hashlib, json, os, shutil, subprocess, sys, tempfile, atexit, re

VERIF = os.path.dirname(os.path.dirname(os.path.abspath(__file__)))
REPO = os.environ.get("MIVERIF_REPO", "/repo")
MIFACTS = os.path.join(VERIF, "build", "mifacts")
CACHE = os.path.join(VERIF, ".cache")
RESOURCE_DIR = "/usr/lib/llvm-14/lib/clang/14.0.6"


class AnalysisBroken(Exception):
    """exit 2: the analysis could not be carried out (never a pass, never a violation)."""


_scratch = None


def scratch():
    global _scratch
    if _scratch is None:
        _scratch = tempfile.mkdtemp(prefix="miverif-")
        atexit.register(lambda: shutil.rmtree(_scratch, ignore_errors=True))
    return _scratch


# ------------------------------------------------------------------------------------------------
# compilation database

FALLBACK_FLAGS = ["-DMI_BUILD_RELEASE", "-DMI_MALLOC_OVERRIDE", "-DMI_SHARED_LIB", "-DMI_SHARED_LIB_EXPORT",
                  "-Dmimalloc_EXPORTS", "-DNDEBUG", "-std=gnu11", "-fPIC", "-fvisibility=hidden",
                  "-ftls-model=initial-exec", "-fno-builtin-malloc"]

_compdb_cache = {}


def compdb(repo=None):
    """(units, flags, how) for the shared-library target of the real build description."""
    repo = repo or REPO
    if repo in _compdb_cache:
        return _compdb_cache[repo]
    how = None
    db = None
    bdir = os.path.join(scratch(), "cmake-" + hashlib.sha1(repo.encode()).hexdigest()[:8])
    try:
        subprocess.run(["cmake", "-S", repo, "-B", bdir, "-G", "Ninja", "-DCMAKE_BUILD_TYPE=RelWithDebInfo"],
                       check=True, stdout=subprocess.DEVNULL, stderr=subprocess.DEVNULL, timeout=120)
        out = subprocess.run(["ninja", "-C", bdir, "-t", "compdb"], check=True, capture_output=True, timeout=60).stdout
        db = json.loads(out)
        how = "cmake -S %s -G Ninja + ninja -t compdb" % repo
    except Exception as e:  # cmake unusable: fall back to the suite's own build tree
        try:
            out = subprocess.run(["ninja", "-C", os.path.join(repo, "_build"), "-t", "compdb"], check=True,
                                 capture_output=True, timeout=60).stdout
            db = json.loads(out)
            how = "ninja -C %s/_build -t compdb (cmake failed: %s)" % (repo, type(e).__name__)
        except Exception:
            db = None
    finally:
        shutil.rmtree(bdir, ignore_errors=True)
    units, flags = [], None
    if db:
        for e in db:
            cmd = e.get("command", "")
            if "-DMI_SHARED_LIB_EXPORT" not in cmd:
                continue
            f = os.path.normpath(os.path.join(e.get("directory", ""), e["file"]))
            if not f.startswith(os.path.join(repo, "src")) or f in units:
                continue
            units.append(f)
            if flags is None:
                toks = cmd.split()
                fl = []
                for t in toks[1:]:
                    if t.startswith(("-D", "-I", "-std", "-f", "-U")) and not t.startswith("-fdiagnostics"):
                        fl.append(t)
                flags = fl
    if not units:
        how = "fallback: src/*.c + src/prim/prim.c with the frozen flag set (no usable compdb)"
        srcd = os.path.join(repo, "src")
        included = {"alloc-override.c", "free.c", "page-queue.c", "arena-abandon.c", "static.c"}
        units = sorted(os.path.join(srcd, f) for f in os.listdir(srcd) if f.endswith(".c") and f not in included)
        units.append(os.path.join(srcd, "prim", "prim.c"))
        flags = list(FALLBACK_FLAGS) + ["-I" + os.path.join(repo, "include")]
    _compdb_cache[repo] = (units, flags, how)
    return _compdb_cache[repo]


CONFIGS = {
    "REL": lambda fl: fl,
    "SEC": lambda fl: fl + ["-DMI_SECURE=4"],
    "DBG": lambda fl: [f for f in fl if f != "-DNDEBUG"] + ["-UNDEBUG", "-DMI_DEBUG=3"],
    "PAD": lambda fl: fl + ["-DMI_PADDING=1"],
}

PROBE_MACROS = """MI_INTPTR_SIZE MI_INTPTR_SHIFT MI_SIZE_SIZE MI_SIZE_BITS MI_SEGMENT_SIZE MI_SEGMENT_MASK MI_SEGMENT_ALIGN
MI_SEGMENT_SLICE_SIZE MI_SEGMENT_SLICE_SHIFT MI_SLICES_PER_SEGMENT MI_SEGMENT_SHIFT MI_SMALL_PAGE_SIZE MI_MEDIUM_PAGE_SIZE
MI_SMALL_PAGE_SHIFT MI_MEDIUM_PAGE_SHIFT MI_SMALL_OBJ_SIZE_MAX MI_MEDIUM_OBJ_SIZE_MAX MI_MEDIUM_OBJ_WSIZE_MAX
MI_LARGE_OBJ_SIZE_MAX MI_LARGE_OBJ_WSIZE_MAX MI_MAX_ALLOC_SIZE MI_PADDING_SIZE MI_PADDING_WSIZE MI_PAGES_DIRECT
MI_SMALL_WSIZE_MAX MI_SMALL_SIZE_MAX MI_BIN_HUGE MI_BIN_FULL MI_MAX_ALIGN_SIZE MI_MAX_ALIGN_GUARANTEE
MI_BLOCK_ALIGNMENT_MAX MI_MAX_SLICE_OFFSET_COUNT MI_HUGE_BLOCK_SIZE MI_MAX_EXTEND_SIZE MI_MIN_EXTEND MI_MAX_BLOCKS
MI_SEGMENT_BIN_MAX MI_ARENA_BLOCK_SIZE MI_ARENA_MIN_OBJ_SIZE MI_MAX_ARENAS MI_BITMAP_FIELD_BITS MI_BITMAP_FIELD_FULL
MI_COMMIT_SIZE MI_MINIMAL_COMMIT_SIZE MI_COMMIT_MASK_BITS MI_COMMIT_MASK_FIELD_BITS MI_COMMIT_MASK_FIELD_COUNT
MI_SECURE MI_DEBUG MI_PADDING MI_ENCODE_FREELIST MI_STAT MI_MAX_DELAY_OUTPUT MI_HUGE_OS_PAGE_SIZE MI_KiB MI_MiB MI_GiB
MI_SEGMENT_MAP_BITS MI_SEGMENT_MAP_SIZE MI_SEGMENT_MAP_PART_SIZE MI_SEGMENT_MAP_PART_BITS MI_SEGMENT_MAP_PART_ENTRIES
MI_SEGMENT_MAP_MAX_PARTS MI_SEGMENT_MAP_MAX_ADDRESS MI_MAX_ADDRESS MI_MAX_VABITS MI_MAX_ERROR_COUNT MI_MAX_WARNING_COUNT
MI_DEBUG_UNINIT MI_DEBUG_FREED MI_DEBUG_PADDING MI_CACHE_LINE MI_OS_PAGE_SIZE MI_TD_CACHE_SIZE MI_HINT_BASE MI_HINT_AREA MI_HINT_MAX
MI_USE_ENVIRON MI_NO_GETENV MI_DEFAULT_ARENA_RESERVE MI_DEFAULT_EAGER_COMMIT MI_DEFAULT_ARENA_EAGER_COMMIT
MI_RETIRE_CYCLES MI_MAX_RETIRE_SIZE MI_MAX_OS_PAGE_SIZE PTRDIFF_MAX SIZE_MAX LONG_MAX INT_MAX
EAGAIN EFAULT EINVAL ENOMEM EOVERFLOW ENOENT""".split()


def _probe_source(path):
    lines = ['#include "mimalloc.h"', '#include "mimalloc/internal.h"', '#include "mimalloc/atomic.h"',
             '#include "mimalloc/prim.h"', '#include <errno.h>', '#include <limits.h>', '#include <stdint.h>']
    for m in PROBE_MACROS:
        lines.append("#ifdef %s\nstatic const unsigned long long PROBE_%s = (unsigned long long)(%s);\n#endif" % (m, m, m))
    # type sizes needed by table rules
    for t in ["mi_page_t", "mi_slice_t", "mi_segment_t", "mi_block_t", "mi_heap_t", "mi_memid_t"]:
        lines.append("static const unsigned long long PROBE_sizeof_%s = sizeof(%s);" % (t, t))
    with open(path, "w") as f:
        f.write("\n".join(lines) + "\n")


def _tree_hash(repo):
    h = hashlib.sha256()
    for sub in ("src", "include"):
        for root, dirs, files in sorted(os.walk(os.path.join(repo, sub))):
            dirs.sort()
            for fn in sorted(files):
                p = os.path.join(root, fn)
                h.update(p.encode())
                try:
                    with open(p, "rb") as f:
                        h.update(f.read())
                except OSError:
                    pass
    return h.hexdigest()


def extract(config, repo=None, extra_flags=None, extra_files=None, tag=""):
    """Run mifacts for a configuration; returns the parsed JSON (cached by content hash)."""
    repo = repo or REPO
    if not os.path.exists(MIFACTS):
        raise AnalysisBroken("extractor %s not built (run MANIFEST setup_cmd: make -C /verif/engine)" % MIFACTS)
    units, flags, how = compdb(repo)
    flags = CONFIGS[config](list(flags)) + list(extra_flags or [])
    with open(MIFACTS, "rb") as f:
        toolh = hashlib.sha256(f.read()).hexdigest()[:16]
    key = hashlib.sha256(("|".join([_tree_hash(repo), config, " ".join(flags), " ".join(units), toolh, tag,
                                    " ".join(PROBE_MACROS)] + list(extra_files or []))).encode()).hexdigest()[:32]
    os.makedirs(CACHE, exist_ok=True)
    cpath = os.path.join(CACHE, key + ".json")
    if os.path.exists(cpath):
        try:
            with open(cpath) as f:
                d = json.load(f)
            d["_how"] = how
            d["_flags"] = flags
            return d
        except Exception:
            pass
    probe = os.path.join(scratch(), "miverif_probe_%s.c" % config)
    _probe_source(probe)
    out = os.path.join(scratch(), "facts-%s-%s.json" % (config, key))
    root = repo.rstrip("/") + "/"
    cmd = [MIFACTS, out, root] + units + [probe] + list(extra_files or []) + ["--"] + flags + \
          ["-resource-dir", RESOURCE_DIR, "-Wno-everything"]
    r = subprocess.run(cmd, capture_output=True, text=True, timeout=600)
    if r.returncode != 0:
        raise AnalysisBroken("mifacts failed for config %s (rc=%d): %s" % (config, r.returncode, r.stderr[-2000:]))
    with open(out) as f:
        d = json.load(f)
    tmp = cpath + ".%d.tmp" % os.getpid()
    try:
        shutil.copyfile(out, tmp)
        os.replace(tmp, cpath)
        # keep the cache small
        ents = sorted((os.path.getmtime(os.path.join(CACHE, x)), x) for x in os.listdir(CACHE) if x.endswith(".json"))
        for _, x in ents[:-24]:
            os.unlink(os.path.join(CACHE, x))
    except OSError:
        pass
    os.unlink(out)
    d["_how"] = how
    d["_flags"] = flags
    return d


# ------------------------------------------------------------------------------------------------
# program model

TRANSPARENT_CASTS = {"LValueToRValue", "NoOp", "BitCast", "IntegralCast", "FunctionToPointerDecay", "ArrayToPointerDecay",
                     "IntegralToBoolean", "PointerToBoolean", "NullToPointer", "IntegralToPointer", "PointerToIntegral",
                     "ToVoid", "AtomicToNonAtomic", "NonAtomicToAtomic", "BuiltinFnToFnPtr"}
ASSIGN_OPS = {"=", "+=", "-=", "*=", "/=", "%=", "<<=", ">>=", "&=", "|=", "^="}


class Fn:
    def __init__(self, d, prog):
        self.d = d
        self.prog = prog
        self.name = d["name"]
        self.file = d["file"]
        self.line = d["line"]
        self.nodes = d["nodes"]
        self.params = [p["n"] for p in d["params"]]
        self.pids = d.get("pids", [])
        for i, n in enumerate(self.nodes):
            n["i"] = i
        self.parent = {}
        for i, n in enumerate(self.nodes):
            for c in n["c"]:
                if c >= 0 and c not in self.parent:
                    self.parent[c] = i
        self._cfg = None

    # ---- tree helpers
    def N(self, i):
        return self.nodes[i]

    def kids(self, i):
        return [c for c in self.nodes[i]["c"] if c >= 0]

    CONTAINERS = ("CompoundStmt", "IfStmt", "WhileStmt", "ForStmt", "DoStmt", "SwitchStmt", "CaseStmt", "DefaultStmt", "LabelStmt")

    def walk(self, i):
        """pre-order walk of the subtree of i. The body of a virtually inlined helper hangs under its call node: a walk that
        starts at a statement container goes through it (the helper's statements execute there), a walk of an expression
        (an initialiser, an argument, a condition) treats the inlined call as a leaf — its value, not its body."""
        deep = self.nodes[i]["k"] in self.CONTAINERS
        st = [i]
        while st:
            x = st.pop()
            yield x
            if not deep and self.nodes[x].get("inlined"):
                continue
            st.extend(reversed(self.kids(x)))

    def all(self, pred=None, kind=None):
        for n in self.nodes:
            if kind and n["k"] != kind:
                continue
            if pred and not pred(n):
                continue
            yield n["i"]

    def loc(self, i):
        n = self.nodes[i]
        return "%s:%s" % (n.get("file", self.file).replace(REPO.rstrip("/") + "/", ""), n.get("ln", self.line))

    def where(self, i=None):
        if i is None:
            return "%s:%d %s" % (self.file.replace(REPO.rstrip("/") + "/", ""), self.line, self.name)
        return "%s in %s" % (self.loc(i), self.name)

    def strip(self, i, casts=True):
        """skip parentheses, implicit/explicit value-preserving casts, __builtin_expect and `!!`"""
        while True:
            n = self.nodes[i]
            k = n["k"]
            if k == "ParenExpr" or k == "ConstantExpr" or k == "ExprWithCleanups":
                i = n["c"][0]
            elif casts and k in ("ImplicitCastExpr", "CStyleCastExpr") and n.get("ck") in TRANSPARENT_CASTS:
                i = n["c"][0]
            elif k == "CallExpr" and n.get("callee") == "__builtin_expect":
                i = n["args"][0]
            elif k == "UnaryOperator" and n["op"] == "!":
                j = self.strip(n["c"][0])
                m = self.nodes[j]
                if m["k"] == "UnaryOperator" and m["op"] == "!":
                    i = m["c"][0]
                else:
                    return i
            else:
                return i

    def up(self, i):
        """nearest ancestor that is not a transparent wrapper"""
        p = self.parent.get(i)
        while p is not None:
            n = self.nodes[p]
            if n["k"] in ("ParenExpr", "ConstantExpr") or (n["k"] in ("ImplicitCastExpr", "CStyleCastExpr") and n.get("ck") in TRANSPARENT_CASTS):
                p = self.parent.get(p)
            else:
                return p
        return None

    def text(self, i, depth=0):
        """normalised C-like rendering (wrappers stripped); used for messages and structural equality"""
        if i is None or i < 0:
            return "<null>"
        i = self.strip(i)
        n = self.nodes[i]
        k = n["k"]
        T = self.text
        if k == "DeclRefExpr":
            return n["n"]
        if k == "IntegerLiteral":
            return str(n["v"])
        if k == "CharacterLiteral":
            return "'%s'" % chr(n["v"]) if 32 <= n["v"] < 127 else "'\\x%02x'" % n["v"]
        if k == "StringLiteral":
            return json.dumps(n.get("s", ""))
        if k == "MemberExpr":
            return T(n["c"][0]) + ("->" if n["arrow"] else ".") + n["fld"]
        if k in ("BinaryOperator", "CompoundAssignOperator"):
            return "(" + T(n["c"][0]) + " " + n["op"] + " " + T(n["c"][1]) + ")"
        if k == "UnaryOperator":
            op = n["op"]
            if op.startswith("post"):
                return T(n["c"][0]) + op[4:]
            if op.startswith("pre"):
                return op[3:] + T(n["c"][0])
            return op + T(n["c"][0])
        if k == "CallExpr":
            return T(n["fn"]) + "(" + ", ".join(T(a) for a in n["args"]) + ")"
        if k == "ArraySubscriptExpr":
            return T(n["c"][0]) + "[" + T(n["c"][1]) + "]"
        if k == "ConditionalOperator":
            return "(" + T(n["cond"]) + " ? " + T(n["then"]) + " : " + T(n["else"]) + ")"
        if k == "UnaryExprOrTypeTraitExpr":
            return "sizeof(%s)" % (n.get("argt") or (T(n["c"][0]) if n["c"] else "?"))
        if k in ("ImplicitCastExpr", "CStyleCastExpr"):
            return "(%s)%s" % (n["t"], T(n["c"][0]))
        if k == "AtomicExpr":
            return "atomic_%s(%s)" % (n["aop"], ", ".join(T(c) for c in self.kids(i)))
        if k == "ReturnStmt":
            return "return " + (T(n["val"]) if "val" in n else "")
        if k == "DeclStmt":
            return "; ".join("%s %s%s" % (d["t"], d["n"], (" = " + T(d["init"])) if "init" in d else "") for d in n["decls"])
        if k == "InitListExpr":
            return "{" + ", ".join(T(c) for c in self.kids(i)) + "}"
        if k == "StmtExpr":
            return "({...})"
        if "cv" in n:
            return str(n["cv"])
        return k

    def cv(self, i):
        """folded constant of an expression (through wrappers), or None"""
        while True:
            n = self.nodes[i]
            if "cv" in n:
                return int(n["cv"])
            if n["k"] in ("ParenExpr", "ImplicitCastExpr", "CStyleCastExpr", "ConstantExpr") and n["c"]:
                i = n["c"][0]
                continue
            return None

    # ---- classification
    def calls(self, name=None):
        for n in self.nodes:
            if n["k"] == "CallExpr" and (name is None or n.get("callee") == name or (isinstance(name, (set, frozenset, tuple, list)) and n.get("callee") in name)):
                yield n["i"]

    def members(self, field, rec=None):
        for n in self.nodes:
            if n["k"] == "MemberExpr" and n["fld"] == field and (rec is None or n.get("rec") == rec):
                yield n["i"]

    def access(self, i):
        """'read' | 'write' | 'rw' | 'addr' | 'base' for an lvalue node (member / declref / subscript / deref)"""
        p = self.up(i)
        if p is None:
            return "read"
        pn = self.nodes[p]
        k = pn["k"]
        me = self._child_slot(p, i)
        if k == "BinaryOperator" and pn["op"] == "=" and me == 0:
            return "write"
        if k == "CompoundAssignOperator" and me == 0:
            return "rw"
        if k == "UnaryOperator":
            if pn["op"] in ("post++", "post--", "pre++", "pre--"):
                return "rw"
            if pn["op"] == "&":
                return "addr"
        if k == "MemberExpr" and not pn["arrow"]:
            return "base:" + self.access(p)
        if k == "ArraySubscriptExpr" and me == 0:
            # array-typed lvalue decays; the element access decides
            return "base:" + self.access(p)
        return "read"

    def _child_slot(self, p, i):
        """index among p's children of the child subtree containing i"""
        for slot, c in enumerate(self.nodes[p]["c"]):
            x = i
            while x is not None and x != c and x != p:
                x = self.parent.get(x)
            if x == c:
                return slot
        return -1

    def stores(self):
        """yield (assign_node, lhs, rhs|None, op) for every store statement/expr"""
        for n in self.nodes:
            k = n["k"]
            if k == "BinaryOperator" and n["op"] == "=":
                yield n["i"], n["c"][0], n["c"][1], "="
            elif k == "CompoundAssignOperator":
                yield n["i"], n["c"][0], n["c"][1], n["op"]
            elif k == "UnaryOperator" and n["op"] in ("post++", "post--", "pre++", "pre--"):
                yield n["i"], n["c"][0], None, n["op"][-2:]

    def updates(self):
        """every store in a normal form that does not depend on how it is written: (node, lhs, kind, operand) with kind
        'set' (operand = rhs), 'add' / 'sub' (operand = the amount node, or the int 1 for ++/--), or 'rmw' (other compound
        operators; operand = rhs). `x = x + e`, `x += e`, `x++`, `++x`, `x = e + x` are all ('add', e|1)."""
        for a, lhs, rhs, op in self.stores():
            if op == "++":
                yield a, lhs, "add", 1
            elif op == "--":
                yield a, lhs, "sub", 1
            elif op == "+=":
                yield a, lhs, "add", (1 if self.cv(rhs) == 1 else rhs)
            elif op == "-=":
                yield a, lhs, "sub", (1 if self.cv(rhs) == 1 else rhs)
            elif op == "=":
                j = self.strip(rhs)
                n = self.nodes[j]
                lt = self.text(lhs)
                if n["k"] == "BinaryOperator" and n["op"] in ("+", "-") and self.cv(j) is None:
                    l, r = n["c"]
                    if self.text(l) == lt and not self._impure(lhs):
                        yield a, lhs, ("add" if n["op"] == "+" else "sub"), (1 if self.cv(r) == 1 else r)
                        continue
                    if n["op"] == "+" and self.text(r) == lt and not self._impure(lhs):
                        yield a, lhs, "add", (1 if self.cv(l) == 1 else l)
                        continue
                yield a, lhs, "set", rhs
            else:
                yield a, lhs, "rmw", rhs

    def _impure(self, i):
        return any(self.nodes[x]["k"] in ("CallExpr", "AtomicExpr") or (self.nodes[x]["k"] == "UnaryOperator" and self.nodes[x]["op"] in ("post++", "post--", "pre++", "pre--"))
                   for x in self.walk(i))

    def field_updates(self, field, rec=None):
        for a, lhs, kind, opnd in self.updates():
            l = self.strip(lhs)
            ln = self.nodes[l]
            if ln["k"] == "MemberExpr" and ln["fld"] == field and (rec is None or ln.get("rec") == rec):
                yield a, l, kind, opnd

    def var_updates(self, d):
        for a, lhs, kind, opnd in self.updates():
            l = self.strip(lhs)
            if self.nodes[l]["k"] == "DeclRefExpr" and self.nodes[l]["d"] == d:
                yield a, kind, opnd

    def loops(self):
        """every loop statement in one shape: dict(node, kind, cond, body, init, inc) — init/inc only for `for`"""
        for n in self.nodes:
            if n["k"] in ("ForStmt", "WhileStmt", "DoStmt"):
                yield dict(node=n["i"], kind=n["k"], cond=n.get("cond"), body=n.get("body"), init=n.get("init"), inc=n.get("inc"))

    def field_stores(self, field, rec=None):
        for a, lhs, rhs, op in self.stores():
            l = self.strip(lhs)
            ln = self.nodes[l]
            if ln["k"] == "MemberExpr" and ln["fld"] == field and (rec is None or ln.get("rec") == rec):
                yield a, l, rhs, op

    def var_defs(self, d):
        """definition sites of local/param declaration id d: list of (node, rhs|None, kind)"""
        out = []
        for n in self.nodes:
            if n["k"] == "DeclStmt":
                for dd in n["decls"]:
                    if dd["d"] == d:
                        out.append((n["i"], dd.get("init"), "decl"))
        for a, lhs, rhs, op in self.stores():
            l = self.strip(lhs)
            ln = self.nodes[l]
            if ln["k"] == "DeclRefExpr" and ln["d"] == d:
                out.append((a, rhs, op))
        for n in self.nodes:
            if n["k"] == "UnaryOperator" and n["op"] == "&":
                c = self.strip(n["c"][0])
                if self.nodes[c]["k"] == "DeclRefExpr" and self.nodes[c]["d"] == d:
                    out.append((n["i"], None, "addr"))
        return out

    def refs(self, d):
        return [n["i"] for n in self.nodes if n["k"] == "DeclRefExpr" and n["d"] == d]

    def decl_of(self, name):
        """declaration id of the (unique) local or parameter called `name` (for messages/tests only)"""
        ids = set()
        for n in self.nodes:
            if n["k"] == "DeclRefExpr" and n["n"] == name and n["dk"] in ("local", "parm"):
                ids.add(n["d"])
            if n["k"] == "DeclStmt":
                for dd in n["decls"]:
                    if dd["n"] == name:
                        ids.add(dd["d"])
        return ids

    def zero_node(self):
        """a synthetic literal 0 (for places where the source has no node for an implicit zero, e.g. array decay = index 0)"""
        if "_zero" not in self.__dict__:
            self.nodes.append({"k": "IntegerLiteral", "c": [], "v": 0, "cv": 0, "t": "int", "i": len(self.nodes), "synthetic": True})
            self._zero = len(self.nodes) - 1
        return self._zero

    def alias_root(self, d):
        """plumbing left behind by lib/inline.py is transparent: a `__ret_H` variable that is assigned exactly once from a
        local, and a local initialised from such a variable, are the same variable as far as the rules are concerned"""
        cache = self.__dict__.setdefault("_alias", {})
        if d in cache:
            return cache[d]
        cache[d] = d
        if not any(n.get("inlined") for n in self.nodes):
            return d
        name = next((n["n"] for n in self.nodes if n["k"] == "DeclRefExpr" and n.get("d") == d), None)
        if name is None:
            name = next((dd["n"] for n in self.nodes if n["k"] == "DeclStmt" for dd in n["decls"] if dd["d"] == d), "")
        defs = [(a, rhs, op) for a, rhs, op in self.var_defs(d) if op != "addr" and not (op == "decl" and rhs is None)]
        if len(defs) == 1 and defs[0][1] is not None and defs[0][2] in ("=", "decl"):
            j = self.strip(defs[0][1])
            n = self.nodes[j]
            an = self.nodes[defs[0][0]]
            via_out = an["k"] == "BinaryOperator" and self.nodes[self.strip(an["c"][0])].get("inl_out")
            if n["k"] == "DeclRefExpr" and n.get("dk") in ("local", "parm") and (name.startswith("__ret_") or n["n"].startswith("__ret_") or via_out):
                cache[d] = self.alias_root(n["d"])
        return cache[d]

    def param_id(self, idx):
        return self.pids[idx] if idx < len(self.pids) else None

    def is_ref(self, i, d):
        j = self.strip(i)
        n = self.nodes[j]
        return n["k"] == "DeclRefExpr" and (n["d"] == d or (d is not None and self.alias_root(n["d"]) == self.alias_root(d)))

    def mentions(self, i, pred):
        return any(pred(self.nodes[x]) for x in self.walk(i))

    def mentions_decl(self, i, d):
        return any(self.nodes[x]["k"] == "DeclRefExpr" and self.nodes[x]["d"] == d for x in self.walk(i))

    def mentions_field(self, i, fld):
        return any(self.nodes[x]["k"] == "MemberExpr" and self.nodes[x]["fld"] == fld for x in self.walk(i))

    def mentions_call(self, i, name):
        names = name if isinstance(name, (set, frozenset, tuple, list)) else (name,)
        return any(self.nodes[x]["k"] == "CallExpr" and self.nodes[x].get("callee") in names for x in self.walk(i))

    def stmt_of(self, i):
        """the enclosing full statement (child of a CompoundStmt / control statement)"""
        x = i
        while True:
            p = self.parent.get(x)
            if p is None:
                return x
            if self.nodes[p]["k"] in ("CompoundStmt", "IfStmt", "WhileStmt", "DoStmt", "ForStmt", "SwitchStmt",
                                      "CaseStmt", "DefaultStmt", "LabelStmt"):
                return x
            x = p

    @property
    def cfg(self):
        if self._cfg is None:
            from cfg import CFG
            self._cfg = CFG(self)
        return self._cfg


class Program:
    def __init__(self, d, config):
        self.d = d
        self.config = config
        self.units = d["units"]
        self.how = d.get("_how", "")
        self.flags = d.get("_flags", [])
        self.enums = {k: int(v) for k, v in d["enums"].items()}
        self.fns = {}
        self.dups = []
        for fd in d["functions"]:
            if "miverif_probe" in fd["file"]:
                continue
            if fd["name"] in self.fns:
                self.dups.append(fd["name"])
                continue
            self.fns[fd["name"]] = Fn(fd, self)
        self.globals = {}
        self.consts = {}
        for g in d["globals"]:
            if g["name"].startswith("PROBE_"):
                if "val" in g and g["val"] is not None:
                    self.consts[g["name"][6:]] = int(g["val"])
            else:
                self.globals.setdefault(g["name"], g)
        self.records = {r["name"]: r for r in d["records"]}
        self.aliases = {a["name"]: a for a in d["aliases"]}
        self.protos = {}
        for p in d["protos"]:
            self.protos.setdefault(p["name"], []).append(p)
        self._callers = None
        self._summ = {}

    def fn(self, name):
        f = self.fns.get(name)
        if f is None:
            raise AnalysisBroken("anchor function `%s` not found in configuration %s" % (name, self.config))
        return f

    def has(self, name):
        return name in self.fns

    def const(self, name):
        if name in self.consts:
            return self.consts[name]
        if name in self.enums:
            return self.enums[name]
        v = self.macro_const(name)
        if v is not None:
            return v
        raise AnalysisBroken("constant `%s` not available in configuration %s" % (name, self.config))

    def macro_const(self, name):
        """value of a macro defined inside a .c unit: the folded constant of a node produced by its expansion"""
        if not hasattr(self, "_macro"):
            self._macro = {}
            for f in self.fns.values():
                for n in f.nodes:
                    m = n.get("macro")
                    if m and "cv" in n and n.get("mfull"):
                        self._macro.setdefault(m, set()).add(int(n["cv"]))
        vs = self._macro.get(name)
        if vs and len(vs) == 1:
            return next(iter(vs))
        return None

    def fns_in(self, *basenames):
        return [f for f in self.fns.values() if os.path.basename(f.file) in basenames]

    # ---- call graph
    def callees(self, f):
        return {self_n.get("callee") for self_n in (f.nodes[i] for i in f.calls()) if self_n.get("callee")}

    @property
    def callers(self):
        if self._callers is None:
            self._callers = {}
            for f in self.fns.values():
                for c in self.callees(f):
                    self._callers.setdefault(c, set()).add(f.name)
                # function references that are not calls (callbacks)
            for f in self.fns.values():
                for n in f.nodes:
                    if n["k"] == "DeclRefExpr" and n["dk"] == "fn":
                        p = f.up(n["i"])
                        if p is not None and f.nodes[p]["k"] == "CallExpr" and f.strip(f.nodes[p]["fn"]) == n["i"]:
                            continue
                        self._callers.setdefault(n["n"], set()).add(f.name)
        return self._callers

    def fn_refs(self, f):
        """functions referenced (called or address taken, e.g. visitor callbacks) by f"""
        return {n["n"] for n in f.nodes if n["k"] == "DeclRefExpr" and n["dk"] == "fn"}

    def reachable(self, roots, cut=(), use_refs=True):
        seen = set()
        st = [r for r in roots]
        while st:
            x = st.pop()
            if x in seen or x in cut:
                continue
            seen.add(x)
            f = self.fns.get(x)
            if f is None:
                continue
            for c in (self.fn_refs(f) if use_refs else self.callees(f)):
                if c not in seen and c not in cut:
                    st.append(c)
        return seen

    def param_names(self, name):
        """parameter names of a function as its users see them: from its declaration in a header under include/ when
        there is one (the names in a definition are private to it), else from the definition"""
        ps = self.protos.get(name, [])
        for p in ps:
            if not p.get("def") and "/include/" in p.get("file", ""):
                return [x["n"] for x in p["params"]]
        if name in self.fns:
            return [x["n"] for x in self.fns[name].d["params"]]
        return [x["n"] for x in ps[0]["params"]] if ps else []

    def region(self, root, cut=()):
        """the function `root` together with the file-local (static, same file) helpers it calls, transitively: the
        unit a rule about `root` looks at, so that moving statements into or out of a private helper changes nothing"""
        f0 = self.fn(root)
        out, st = [], [root]
        seen = set()
        while st:
            x = st.pop()
            if x in seen or x in cut:
                continue
            seen.add(x)
            f = self.fns.get(x)
            if f is None or (x != root and (not f.d.get("static") or f.file != f0.file)):
                continue
            out.append(f)
            st.extend(sorted(self.callees(f)))
        return out

    def call_path(self, src, dst, cut=()):
        """a call chain src -> ... -> dst (list of names) or None"""
        prev = {src: None}
        q = [src]
        while q:
            x = q.pop(0)
            if x == dst:
                out = []
                while x is not None:
                    out.append(x)
                    x = prev[x]
                return out[::-1]
            f = self.fns.get(x)
            if f is None:
                continue
            for c in sorted(self.fn_refs(f)):
                if c not in prev and c not in cut:
                    prev[c] = x
                    q.append(c)
        return None


_programs = {}


def program(config="REL", repo=None):
    key = (config, repo or REPO)
    if key not in _programs:
        d = extract(config, repo)
        inlined = []
        if not os.environ.get("MIVERIF_NO_INLINE"):
            import inline
            renamed = inline.resolve_renames(d, config, repo or REPO)
            inlined = inline.apply(d)
            if inlined:
                gone = {h for _, h in inlined}
                still = {n.get("callee") for fd in d["functions"] for n in fd["nodes"] if n["k"] == "CallExpr"}
                d["functions"] = [fd for fd in d["functions"] if fd["name"] not in gone or fd["name"] in still]
        _programs[key] = Program(d, config)
        _programs[key].inlined = inlined
        _programs[key].renamed = renamed if not os.environ.get("MIVERIF_NO_INLINE") else []
        if not os.environ.get("MIVERIF_NO_INLINE"):
            import inline
            _programs[key].drift = inline.drift(d, config)
        else:
            _programs[key].drift = {}
    return _programs[key]
