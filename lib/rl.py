"""Reusable rule building blocks (DESIGN §2.3). All sites are bound by callee / field / declaration identity."""
from facts import AnalysisBroken


def names(x):
    return x if isinstance(x, (set, frozenset, tuple, list)) else (x,)


def is_call(fn, i, name=None):
    n = fn.nodes[i]
    return n["k"] == "CallExpr" and (name is None or n.get("callee") in names(name))


def call_to(name):
    nm = frozenset(names(name))
    return lambda fn: (lambda e: fn.nodes[e]["k"] == "CallExpr" and fn.nodes[e].get("callee") in nm)


def the_call(ctx, fn, name, nth=None):
    cs = list(fn.calls(name))
    if not cs:
        raise AnalysisBroken("anchor: no call to %s in %s" % (name, fn.name))
    if nth is not None:
        return cs[nth]
    return cs[0]


def arg(fn, call, k):
    a = fn.nodes[call]["args"]
    return a[k] if k < len(a) else None


# ---- interprocedural must-call summaries (P1: wrappers count when the target lies on all their paths)

def must_call(prog, fname, targets, depth=3, _stack=None):
    """True if every entry->exit path of `fname` executes a call to one of `targets` (directly or through
    a callee with the same property, up to `depth`)."""
    targets = frozenset(names(targets))
    key = (fname, targets, depth)
    if key in prog._summ:
        return prog._summ[key]
    f = prog.fns.get(fname)
    if f is None or f.d.get("cfg") is None:
        return False
    _stack = _stack or set()
    if fname in _stack:
        return False
    _stack = _stack | {fname}

    def through(e):
        n = f.nodes[e]
        if n["k"] != "CallExpr":
            return False
        c = n.get("callee")
        if c in targets:
            return True
        if c and depth > 0 and c in prog.fns and c != fname:
            return must_call(prog, c, targets, depth - 1, _stack)
        return False
    cfg = f.cfg
    w = cfg.must_pass([cfg.entry], cfg.exit_points(), through)
    # a function that never returns (abort wrappers such as _mi_assert_fail) calls nothing "on every returning path"
    returns = any(x in cfg.reach([cfg.entry]) for x in cfg.exit_points())
    res = w is None and returns
    prog._summ[key] = res
    return res


def calls_doing(prog, fn, primitives, depth=3):
    """call sites in fn that perform one of `primitives`: a direct call, or a call of a wrapper all of whose paths
    call it (so inlining the wrapper at the site, or wrapping the primitive, changes nothing)"""
    prim = set(primitives)
    out = []
    for c in fn.calls():
        cal = fn.nodes[c].get("callee")
        if cal in prim or (cal in prog.fns and cal != fn.name and must_call(prog, cal, tuple(prim), depth=depth)):
            out.append(c)
    return out


def through_call(prog, f, targets, depth=3):
    targets = frozenset(names(targets))

    def through(e):
        n = f.nodes[e]
        if n["k"] != "CallExpr":
            return False
        c = n.get("callee")
        if c in targets:
            return True
        if c and c in prog.fns and c != f.name and depth > 0:
            return must_call(prog, c, targets, depth - 1)
        return False
    return through


def may_call(prog, fname, targets, cut=()):
    """call-graph reachability (calls and function references)"""
    r = prog.reachable([fname], cut=cut)
    return any(t in r for t in names(targets))


# ---- condition facts

def is_null_const(fn, i):
    j = fn.strip(i)
    n = fn.nodes[j]
    return fn.cv(i) == 0 or (n["k"] == "IntegerLiteral" and n["v"] == 0)


def cmp_parts(fn, e):
    """(op, lhs, rhs) of the comparison that holds when e is true, else None. Spelling-independent: wrappers and `!` are
    folded (`!(a < b)` is `a >= b`), and a constant operand is always reported on the right (`0 == x` is `x == 0`)."""
    j = fn.strip(e)
    n = fn.nodes[j]
    pol = True
    while n["k"] == "UnaryOperator" and n["op"] == "!":
        j = fn.strip(n["c"][0])
        n = fn.nodes[j]
        pol = not pol
    if n["k"] == "BinaryOperator" and n["op"] in NEG:
        op, l, r = n["op"], n["c"][0], n["c"][1]
        if not pol:
            op = NEG[op]
        if fn.cv(l) is not None and fn.cv(r) is None:
            op, l, r = SWAP[op], r, l
        return op, l, r
    return None


NEG = {"==": "!=", "!=": "==", "<": ">=", ">=": "<", ">": "<=", "<=": ">"}
SWAP = {"==": "==", "!=": "!=", "<": ">", ">": "<", "<=": ">=", ">=": "<="}
IMPL = {"<": ("<", "<=", "!="), "<=": ("<=",), "==": ("==", "<=", ">="), ">": (">", ">=", "!="), ">=": (">=",), "!=": ("!=",)}


def norm_cmp(fn, e, pol):
    """comparison established by taking branch `pol` of expression e: (op, lhs, rhs) with negation applied"""
    c = cmp_parts(fn, e)
    if c is None:
        return None
    op, l, r = c
    if not pol:
        op = NEG[op]
    return op, l, r


def rel(fn, e, pol, is_a, is_b):
    """the relation `a OP b` established by taking branch `pol` of e, whichever way round it is written; is_a / is_b
    recognise the (wrapper-stripped) operands. None when e is not a comparison of a with b."""
    c = norm_cmp(fn, e, pol)
    if c is None:
        return None
    op, l, r = c
    ls, rs = fn.strip(l), fn.strip(r)
    if is_a(ls) and is_b(rs):
        return op
    if is_a(rs) and is_b(ls):
        return SWAP[op]
    return None


def returns_only(fn, q, value, edge_ok=None, src=None):
    """every `return` reachable from point q yields the constant `value` — written as `return value;` or through a result
    variable that holds `value` on that path (`res = value; goto done; ... done: return res;`). False when no return is
    reachable. With src = the source point of the edge (src -> q) the exploration starts from the states in which that
    edge can be taken (q may be a join point that other paths reach with other values)."""
    cfg = fn.cfg
    inits = [()]
    if src is not None:
        cfg.reach([cfg.entry])      # make sure the tables exist
        if not hasattr(cfg, "_entry_states"):
            cfg._entry_states = cfg.reach([cfg.entry], want_states=True)[1]
        sts = cfg._entry_states.get(src, [])
        if sts:
            inits = [tuple((("const", d_), c_, frozenset((d_,))) for d_, c_ in st.items()) or (("none", 0, frozenset()),) for st in sts]
    seen = False
    for init in inits:
        pts, states = cfg.reach([q], edge_ok=edge_ok, want_states=True, init_facts=init)
        for r in fn.all(kind="ReturnStmt"):
            p = cfg.pt(r)
            if p not in pts or "val" not in fn.nodes[r] or fn.nodes[r].get("inl_ret"):
                continue
            seen = True
            v = fn.nodes[r]["val"]
            if fn.cv(v) is not None:
                if fn.cv(v) != value:
                    return False
                continue
            d = var_of(fn, v)
            if d is None:
                return False
            vals = {st.get(d) for st in states.get(p, [])}
            if vals != {value}:
                return False
    return seen


def returned_values(fn, q, src=None, edge_ok=None):
    """what the returns reachable from point q yield, per path: a list of (return node, value) where value is an int (a
    constant, directly or through a result variable), an expression node id given as ("expr", node) — the returned
    expression itself or the right-hand side the result variable was last assigned on that path — or None (unknown)"""
    cfg = fn.cfg
    inits = [()]
    if src is not None:
        cfg.reach([cfg.entry])
        if not hasattr(cfg, "_entry_states"):
            cfg._entry_states = cfg.reach([cfg.entry], want_states=True)[1]
        sts = cfg._entry_states.get(src, [])
        if sts:
            inits = []
            for st in sts:
                fs = []
                for k_, v_ in st.items():
                    if isinstance(k_, tuple):
                        fs.append((("def", k_[1]), v_, frozenset((k_[1],))))
                    else:
                        fs.append((("const", k_), v_, frozenset((k_,))))
                inits.append(tuple(fs) or (("none", 0, frozenset()),))
    out = []
    for init in inits:
        pts, states = cfg.reach([q], edge_ok=edge_ok, want_states=True, init_facts=init)
        for r in fn.all(kind="ReturnStmt"):
            p = cfg.pt(r)
            if p not in pts or "val" not in fn.nodes[r] or fn.nodes[r].get("inl_ret"):
                continue
            v = fn.nodes[r]["val"]
            if fn.cv(v) is not None:
                out.append((r, fn.cv(v)))
                continue
            j = fn.strip(v)
            n = fn.nodes[j]
            if n["k"] == "DeclRefExpr" and n.get("dk") == "local":
                for st in states.get(p, []):
                    if n["d"] in st:
                        out.append((r, st[n["d"]]))
                    elif ("def", n["d"]) in st:
                        out.append((r, ("expr", st[("def", n["d"])])))
                    else:
                        out.append((r, None))
            else:
                out.append((r, ("expr", v)))
    return out


def counted_loops(fn):
    """loops that count a local up by one: dict(loop, var, first, op, bound, body) for `for (T i = first; i OP bound; i++)`
    and for the same loop written with while (initialisation before the loop, increment at the end of the body).
    `first` is the initial value node (or None when it is not a single reaching definition), op is < or <= in the
    orientation `var op bound`."""
    out = []
    cfg = fn.cfg
    for L in fn.loops():
        if L["cond"] is None:
            continue
        stmts = [x for x in (L["body"], L["inc"]) if x is not None]
        inside = set()
        for s_ in stmts:
            inside.update(fn.walk(s_))
        for e, pol in facts_of(fn, L["cond"], True):
            c = norm_cmp(fn, e, pol)
            if c is None:
                continue
            for (a, b, op) in ((c[1], c[2], c[0]), (c[2], c[1], SWAP[c[0]])):
                d = var_of(fn, a)
                if d is None or op not in ("<", "<="):
                    continue
                ups = [(x, k, o) for x, k, o in fn.var_updates(d) if x in inside]
                if len(ups) != 1 or ups[0][1] != "add" or ups[0][2] != 1:
                    continue
                first = None
                if L["init"] is not None and fn.nodes[L["init"]]["k"] == "DeclStmt":
                    for dd in fn.nodes[L["init"]]["decls"]:
                        if dd["d"] == d and "init" in dd:
                            first = dd["init"]
                if first is None:
                    defs = [rhs for x, rhs, o in reaching_defs(fn, d, L["node"]) if x not in inside]
                    if len(defs) == 1:
                        first = defs[0]
                ent = dict(loop=L["node"], var=d, first=first, op=op, bound=b, body=L["body"], base=None)
                # a pointer walking over an array: `for (T* q = &A[lo]; q <= &A[hi]; q++)` counts the index lo..hi of A
                if first is not None:
                    fa, ba = _array_elem(fn, first), _array_elem(fn, b)
                    if fa is not None and ba is not None and fa[0] == ba[0]:
                        ent.update(base=fa[0], first=fa[1], bound=ba[1])
                out.append(ent)
    return out


def _array_elem(fn, e):
    """(canonical array text, index node) when e is `&A[i]`, `A + i` or the array `A` itself (index 0), else None"""
    j = fn.strip(e)
    n = fn.nodes[j]
    if n["k"] == "UnaryOperator" and n["op"] == "&":
        a = fn.strip(n["c"][0])
        if fn.nodes[a]["k"] == "ArraySubscriptExpr":
            return canon(fn, fn.nodes[a]["c"][0]), fn.nodes[a]["c"][1]
        return None
    if n["k"] == "BinaryOperator" and n["op"] == "+" and fn.cv(j) is None:
        l, r = n["c"]
        if "[" in fn.nodes[fn.strip(l)].get("t", "") or "*" in fn.nodes[fn.strip(l)].get("t", ""):
            return canon(fn, l), r
        return None
    if n["k"] == "MemberExpr" and "[" in n.get("t", ""):
        return canon(fn, j), fn.zero_node()
    return None


def facts_of(fn, e, pol=True):
    """atomic (expr, polarity) facts implied by expression e having truth value pol: a true conjunction makes every
    conjunct true, a false disjunction every disjunct false, `!` flips (the expression-level twin of CFG.facts)"""
    out = []

    def rec(i, pol):
        i = fn.strip(i)
        n = fn.nodes[i]
        while n["k"] == "UnaryOperator" and n["op"] == "!":
            i = fn.strip(n["c"][0])
            n = fn.nodes[i]
            pol = not pol
        out.append((i, pol))
        if n["k"] == "BinaryOperator" and ((n["op"] == "&&" and pol) or (n["op"] == "||" and not pol)):
            rec(n["c"][0], pol)
            rec(n["c"][1], pol)
    rec(e, pol)
    return out


def no_contradiction(fn, contradicts):
    """edge filter: keep the paths that are consistent with an assumption, i.e. drop every edge one of whose facts
    contradicts(expr, pol) it. More robust than looking for the edge that *establishes* the assumption, which does not
    exist when the test is part of a compound condition (`if (a || x == 0)`)."""
    cfg = fn.cfg

    def ok(lab, p, q):
        return not any(isinstance(e, int) and contradicts(e, pol) for e, pol in cfg.facts(lab))
    return ok


def oriented(fn, e, pol, is_a, is_b):
    """(op, a, b) such that taking branch pol of e establishes `a op b`, with a recognised by is_a and b by is_b
    (operands as wrapper-stripped nodes), whichever way round the comparison is written; else None"""
    c = norm_cmp(fn, e, pol)
    if c is None:
        return None
    op, l, r = c
    ls, rs = fn.strip(l), fn.strip(r)
    if is_a(ls) and is_b(rs):
        return op, ls, rs
    if is_a(rs) and is_b(ls):
        return SWAP[op], rs, ls
    return None


def establishes(fn, e, pol, want, is_a, is_b):
    """taking branch pol of e establishes `a want b` (directly or by implication: a < b gives a <= b and a != b, ...)"""
    op = rel(fn, e, pol, is_a, is_b)
    return op is not None and want in IMPL[op]


def branch_stmt(fn, e):
    """kind of the statement whose condition the expression e belongs to: IfStmt / WhileStmt / ForStmt / DoStmt /
    ConditionalOperator, or None"""
    x = e
    while x is not None:
        p = fn.parent.get(x)
        if p is None:
            return None
        n = fn.nodes[p]
        if n["k"] in ("IfStmt", "WhileStmt", "ForStmt", "DoStmt", "ConditionalOperator") and n.get("cond") is not None and x == n["cond"]:
            return n["k"]
        if n["k"] in ("CompoundStmt", "DeclStmt", "ReturnStmt"):
            return None
        x = p
    return None


def is_const(fn, pred=None):
    return lambda j: fn.cv(j) is not None and (pred is None or pred(fn.cv(j)))


def is_local(fn, d):
    return lambda j: fn.nodes[j]["k"] == "DeclRefExpr" and d is not None and (fn.nodes[j]["d"] == d or fn.alias_root(fn.nodes[j]["d"]) == fn.alias_root(d))


def fact_nonnull(fn, e, pol, is_x):
    """does taking branch `pol` on expression e establish that x (recognised by is_x(node)) is non-NULL / non-zero?"""
    c = cmp_parts(fn, e)
    if c is not None:
        op, l, r = c
        for a, b in ((l, r), (r, l)):
            if is_x(fn.strip(a)) and is_null_const(fn, b):
                return (op == "!=" and pol) or (op == "==" and not pol)
        return False
    return pol and is_x(fn.strip(e))


def fact_null(fn, e, pol, is_x):
    c = cmp_parts(fn, e)
    if c is not None:
        op, l, r = c
        for a, b in ((l, r), (r, l)):
            if is_x(fn.strip(a)) and is_null_const(fn, b):
                return (op == "==" and pol) or (op == "!=" and not pol)
        return False
    return (not pol) and is_x(fn.strip(e))


def is_var(fn, d):
    return lambda j: fn.nodes[j]["k"] == "DeclRefExpr" and d is not None and (fn.nodes[j]["d"] == d or fn.alias_root(fn.nodes[j]["d"]) == fn.alias_root(d))


def is_field(fn, fld, base_d=None):
    def f(j):
        n = fn.nodes[j]
        if n["k"] != "MemberExpr" or n["fld"] != fld:
            return False
        if base_d is None:
            return True
        return fn.is_ref(n["c"][0], base_d)
    return f


def edges_with_fact(fn, pred, live_only=True):
    """yield (src_pt, dst_pt, expr, pol) for CFG edges whose fact satisfies pred(expr, pol); edges that only lead into a
    failed assertion (no function exit reachable) are skipped"""
    cfg = fn.cfg
    if live_only and not hasattr(cfg, "_can_exit"):
        # backwards reachability from the exits
        can = set(cfg.exit_points())
        work = list(can)
        while work:
            x = work.pop()
            for pp, lab in cfg.preds.get(x, []):
                if pp not in can:
                    can.add(pp)
                    work.append(pp)
        cfg._can_exit = can
    for p, outs in cfg.edges.items():
        for q, lab in outs:
            if live_only and q not in cfg._can_exit:
                continue
            for e, pol in cfg.facts(lab):
                if pred(e, pol):
                    yield p, q, e, pol
                    break


def local_decl(fn, pred):
    """declaration entries (dict with d,n,t,init) of locals whose DeclStmt entry satisfies pred"""
    out = []
    for n in fn.nodes:
        if n["k"] == "DeclStmt" and not n.get("inl_param"):      # (not the parameter temporaries lib/inline.py makes)
            for dd in n["decls"]:
                if pred(dd):
                    out.append((n["i"], dd))
    return out


def var_init_from(fn, pred_init):
    """locals whose initialiser (stripped) satisfies pred_init(node_id) -> list of (declstmt, decl-entry)"""
    return local_decl(fn, lambda dd: "init" in dd and pred_init(fn.strip(dd["init"])))


def result_use(fn, call):
    """how a call's value is used: 'discarded' | 'voidcast' | 'cond' | 'return' | ('init', d) | ('assign', lhs) | 'arg' | 'operand'"""
    p = fn.parent.get(call)
    x = call
    while p is not None:
        n = fn.nodes[p]
        k = n["k"]
        if k in ("ParenExpr", "ConstantExpr"):
            x, p = p, fn.parent.get(p)
            continue
        if k in ("ImplicitCastExpr", "CStyleCastExpr"):
            if n.get("ck") == "ToVoid":
                return "voidcast"
            x, p = p, fn.parent.get(p)
            continue
        break
    if p is None:
        return "discarded"
    n = fn.nodes[p]
    k = n["k"]
    if k in ("CompoundStmt", "LabelStmt", "CaseStmt", "DefaultStmt"):
        return "discarded"
    if k in ("IfStmt", "WhileStmt", "DoStmt", "ForStmt", "SwitchStmt"):
        if n.get("cond") == x:
            return "cond"
        return "discarded"  # body / init / inc position
    if k == "ReturnStmt":
        return "return"
    if k == "DeclStmt":
        for dd in n["decls"]:
            if dd.get("init") == x:
                return ("init", dd["d"])
        return "operand"
    if k == "BinaryOperator" and n["op"] == "=" and n["c"][1] == x:
        return ("assign", n["c"][0])
    if k == "BinaryOperator" and n["op"] == ",":
        if n["c"][0] == x:
            return "discarded"
        return "operand"
    if k == "CallExpr":
        return "arg"
    return "operand"


def value_edges(fn, call, truth):
    """CFG edges (dst points) on which the (boolean) result of `call` is known to be `truth`: the call tested directly
    in a condition, or a local that was initialised / assigned from it tested later — the same thing written with or
    without a temporary"""
    ds = set()
    u = result_use(fn, call)
    if isinstance(u, tuple):
        d = u[1] if u[0] == "init" else var_of(fn, u[1])
        if d is not None:
            ds.add(d)

    def pred(e, pol):
        if not isinstance(e, int) or pol != truth:
            return False
        j = fn.strip(e)
        return j == call or (fn.nodes[j]["k"] == "DeclRefExpr" and fn.nodes[j]["d"] in ds)
    return [q for p, q, e, pol in edges_with_fact(fn, pred)]


def value_checked(fn, call):
    """P3: the call's result is a branch condition (possibly negated / compared), returned, or stored in a
    variable or lvalue that later appears in a condition or a return. Returns (ok, how)."""
    u = result_use(fn, call)
    if u in ("cond", "return"):
        return True, u
    if u == "operand" or u == "arg":
        # part of a larger expression: find whether that expression is a condition / returned / stored
        x = call
        while True:
            p = fn.parent.get(x)
            if p is None:
                return False, "operand of a discarded expression"
            k = fn.nodes[p]["k"]
            if k in ("IfStmt", "WhileStmt", "DoStmt", "ForStmt", "ConditionalOperator") and fn.nodes[p].get("cond") is not None and \
                    x == fn.nodes[p].get("cond"):
                return True, "cond"
            if k == "BinaryOperator" and fn.nodes[p]["op"] in ("&&", "||"):
                return True, "cond"
            if k == "ReturnStmt":
                return True, "return"
            if k == "CallExpr" and u == "arg":
                return True, "passed on as argument"
            if k == "DeclStmt":
                for dd in fn.nodes[p]["decls"]:
                    if "init" in dd and x == dd["init"]:
                        return _var_checked(fn, dd["d"])
                return False, "?"
            if k == "BinaryOperator" and fn.nodes[p]["op"] == "=" and fn.nodes[p]["c"][1] == x:
                return _lhs_checked(fn, fn.nodes[p]["c"][0])
            if k in ("CompoundStmt",):
                return False, "operand of a discarded expression"
            x = p
    if isinstance(u, tuple) and u[0] == "init":
        ok, how = _var_checked(fn, u[1])
        return (ok and not _overwritten_unread(fn, call, u[1]), how if ok and not _overwritten_unread(fn, call, u[1]) else "stored in a variable that is overwritten before it is read on some path")
    if isinstance(u, tuple) and u[0] == "assign":
        ok, how = _lhs_checked(fn, u[1])
        d = var_of(fn, u[1])
        if ok and d is not None and _overwritten_unread(fn, call, d):
            return False, "stored in a variable that is overwritten before it is read on some path"
        return ok, how
    return False, str(u)


def _overwritten_unread(fn, call, d):
    """the value bound to plain local d by the statement containing `call` can be overwritten by another definition of d
    before anything reads d (a lost result: `ok = f(); if (c) ok = g(); return ok;`)"""
    cfg = fn.cfg
    stmt = fn.stmt_of(call)
    start = cfg.after(stmt) if cfg.pt(stmt) is not None and fn.nodes[stmt]["k"] != "DeclStmt" else None
    if start is None:
        # the binding element: the DeclStmt / assignment node itself
        x = call
        while x is not None and fn.nodes[x]["k"] not in ("DeclStmt",) and not (fn.nodes[x]["k"] == "BinaryOperator" and fn.nodes[x]["op"] == "="):
            x = fn.parent.get(x)
        if x is None or cfg.pt(x) is None:
            return False
        start = cfg.after(x)
        stmt = x
    redefs = [a for a, rhs, op in fn.var_defs(d) if op in ("=", "decl") and a != stmt and not any(y == stmt for y in fn.walk(a))]
    if not redefs:
        return False
    reads = set()
    for n in fn.nodes:
        if n["k"] == "DeclRefExpr" and n.get("d") == d and fn.access(n["i"]) in ("read", "rw"):
            reads.add(n["i"])
    w = None
    for a in redefs:
        # a read that belongs to the redefinition itself (`ok = ok && g()`) counts
        own = {x for x in fn.walk(a) if x in reads}
        w = w or cfg.must_pass([start], [cfg.pt(a)], lambda e: e in reads and e not in own or e in own)
        if w is not None:
            return True
    return False


def _in_condition_or_return(fn, i):
    x = i
    while True:
        p = fn.parent.get(x)
        if p is None:
            return False
        n = fn.nodes[p]
        k = n["k"]
        if k in ("IfStmt", "WhileStmt", "DoStmt", "ForStmt", "ConditionalOperator", "SwitchStmt") and n.get("cond") == x:
            return True
        if k == "BinaryOperator" and n["op"] in ("&&", "||"):
            return True
        if k == "ReturnStmt":
            return True
        if k in ("CompoundStmt",):
            return False
        if k == "CallExpr":
            # passing the value on (e.g. to an assertion or a callee that checks) does not count as a check
            return False
        x = p


def _var_checked(fn, d):
    for r in fn.refs(d):
        if _in_condition_or_return(fn, r):
            return True, "stored in a variable that is tested/returned"
    return False, "stored in a variable that is never tested or returned"


def _lhs_checked(fn, lhs):
    l = fn.strip(lhs)
    n = fn.nodes[l]
    if n["k"] == "DeclRefExpr":
        return _var_checked(fn, n["d"])
    if n["k"] == "MemberExpr":
        txt = fn.text(l)
        for m in fn.members(n["fld"]):
            if m != l and fn.text(m) == txt and _in_condition_or_return(fn, m):
                return True, "stored in a field that is tested/returned"
        return True, "stored in object state (%s)" % txt
    if n["k"] == "UnaryOperator" and n["op"] == "*":
        return True, "stored through an out-parameter"
    return False, "stored in " + fn.text(l)


OPTION_GETTERS = ("mi_option_get", "mi_option_is_enabled", "_mi_option_get_fast", "mi_option_get_clamp", "mi_option_get_size")


def is_option_get(fn, i, optname):
    j = fn.strip(i)
    n = fn.nodes[j]
    if n["k"] != "CallExpr" or n.get("callee") not in OPTION_GETTERS or not n["args"]:
        return False
    a = fn.strip(n["args"][0])
    return fn.nodes[a]["k"] == "DeclRefExpr" and fn.nodes[a]["n"] == optname


def mentions_option(fn, i, optname):
    return any(fn.nodes[x]["k"] == "CallExpr" and is_option_get(fn, x, optname) for x in fn.walk(i))


def var_of(fn, i):
    """declaration id if expression i is (a wrapper around) a local/param reference, else None"""
    j = fn.strip(i)
    n = fn.nodes[j]
    if n["k"] == "DeclRefExpr" and n["dk"] in ("local", "parm"):
        return fn.alias_root(n["d"])
    return None


def values_of(fn, i, depth=3):
    """the expression i plus, when i is a single-assignment style local, the right-hand sides that define it"""
    out = [fn.strip(i)]
    d = var_of(fn, i)
    if d is not None and depth > 0:
        for a, rhs, op in fn.var_defs(d):
            if rhs is not None and op in ("=", "decl"):
                out.extend(values_of(fn, rhs, depth - 1))
    return out


def can_reach_call(fn, start, callee_pred):
    """True if from point `start` some path executes a call satisfying callee_pred(node)"""
    cfg = fn.cfg
    for p in cfg.reach([start]):
        e = cfg.elem_at(p)
        if e is not None and fn.nodes[e]["k"] == "CallExpr" and callee_pred(fn.nodes[e]):
            return True
    return False


def conjuncts(fn, i):
    """flatten a && b && c (through wrappers and single-definition bool locals) into leaf expressions"""
    j = fn.strip(i)
    n = fn.nodes[j]
    if n["k"] == "BinaryOperator" and n["op"] == "&&":
        return conjuncts(fn, n["c"][0]) + conjuncts(fn, n["c"][1])
    return [j]


def never_after(fn, call, d, fields_only=True):
    """member accesses `d->...` that can execute after `call` returns, before d is re-assigned (P1 never-after)"""
    cfg = fn.cfg
    start = cfg.after(call)

    def kills(e):
        n = fn.nodes[e]
        if n["k"] == "BinaryOperator" and n["op"] == "=" and fn.is_ref(n["c"][0], d):
            return True
        if n["k"] == "DeclStmt" and any(dd["d"] == d for dd in n["decls"]):
            return True
        return False
    bad = []
    for p in cfg.reach([start], avoid=kills):
        e = cfg.elem_at(p)
        if e is None:
            continue
        n = fn.nodes[e]
        if n["k"] == "MemberExpr" and n["arrow"] and fn.is_ref(n["c"][0], d):
            # an assignment `d = ...` whose RHS is being evaluated does not reference d->; fine
            bad.append(e)
        elif n["k"] == "UnaryOperator" and n["op"] == "*" and fn.is_ref(n["c"][0], d):
            bad.append(e)
    return bad


def precedes(fn, through, target_node, starts=None, edge_ok=None):
    """None if every path from entry to target_node executes an element satisfying through; else witness"""
    cfg = fn.cfg
    t = cfg.pt(target_node)
    return cfg.must_pass(starts or [cfg.entry], [t], through, edge_ok=edge_ok)


def followed_by(fn, node, through, edge_ok=None):
    """None if every path from just after `node` to a function exit executes an element satisfying through"""
    cfg = fn.cfg
    return cfg.must_pass([cfg.after(node)], cfg.exit_points(), through, edge_ok=edge_ok)


def field_is(fn, e, fld):
    j = fn.strip(e)
    n = fn.nodes[j]
    return n["k"] == "MemberExpr" and n["fld"] == fld


def fact_field_true(fn, fld):
    """edge fact: `x->fld` is true / non-zero"""
    return lambda e, pol: isinstance(e, int) and fact_nonnull(fn, e, pol, lambda j: fn.nodes[j]["k"] == "MemberExpr" and fn.nodes[j]["fld"] == fld)


def fact_field_false(fn, fld):
    return lambda e, pol: isinstance(e, int) and fact_null(fn, e, pol, lambda j: fn.nodes[j]["k"] == "MemberExpr" and fn.nodes[j]["fld"] == fld)


def fact_field_eq(fn, fld, value):
    """edge fact: `x->fld == value` (value: int constant)"""
    def f(e, pol):
        if not isinstance(e, int):
            return False
        c = norm_cmp(fn, e, pol)
        if c is None or c[0] != "==":
            return False
        for a, b in ((c[1], c[2]), (c[2], c[1])):
            if field_is(fn, a, fld) and fn.cv(b) == value:
                return True
        return False
    return f


def accessor_def(prog, name):
    """what a one-line accessor stands for: ('field', f) for `return x->..f;` (a flag or value read), ('cmp', op, f, k) for
    `return x->..f OP k;` — so that a rule recognises `mi_page_has_aligned(page)` and `page->flags.x.has_aligned` alike.
    None for anything that is not such an accessor."""
    cache = prog.__dict__.setdefault("_accessors", {})
    if name in cache:
        return cache[name]
    cache[name] = None
    f = prog.fns.get(name)
    if f is None or len(f.pids) != 1:
        return None
    rets = [r for r in f.all(kind="ReturnStmt") if "val" in f.nodes[r]]
    if len(rets) != 1:
        return None
    others = [n for n in f.nodes if n["k"] in ("CallExpr", "AtomicExpr") and n.get("callee") not in ("_mi_assert_fail", "__builtin_expect")]
    if others:
        return None
    v = f.strip(f.nodes[rets[0]]["val"])
    n = f.nodes[v]
    if n["k"] == "MemberExpr" and f.mentions_decl(v, f.pids[0]):
        cache[name] = ("field", n["fld"])
    else:
        c = cmp_parts(f, v)
        if c is not None and f.nodes[f.strip(c[1])]["k"] == "MemberExpr" and f.cv(c[2]) is not None and f.mentions_decl(c[1], f.pids[0]):
            cache[name] = ("cmp", c[0], f.nodes[f.strip(c[1])]["fld"], f.cv(c[2]))
    return cache[name]


def _accessor_truth(fn, callee, e, pol):
    """does taking branch pol of e establish that accessor `callee` is true (returns True), false (False), or neither (None)?
    e may call the accessor or spell out its definition"""
    j = fn.strip(e)
    for cal in names(callee):
        if is_call(fn, j, cal):
            return pol
        a = accessor_def(fn.prog, cal)
        if a is None:
            continue
        if a[0] == "field":
            if fn.nodes[j]["k"] == "MemberExpr" and fn.nodes[j]["fld"] == a[1]:
                return pol
            c = oriented(fn, e, pol, is_field(fn, a[1]), is_const(fn, lambda v: v == 0))
            if c is not None and c[0] in ("==", "!="):
                return c[0] == "!="
        else:
            c = oriented(fn, e, pol, is_field(fn, a[2]), is_const(fn, lambda v: v == a[3]))
            if c is not None:
                if a[1] in IMPL[c[0]]:
                    return True
                if NEG[a[1]] in IMPL[c[0]]:
                    return False
    return None


def fact_call_true(fn, callee, arg0_d=None):
    def f(e, pol):
        if not isinstance(e, int):
            return False
        if _accessor_truth(fn, callee, e, pol) is not True:
            return False
        j = fn.strip(e)
        if arg0_d is None or not is_call(fn, j, callee):
            return True
        return fn.is_ref(fn.nodes[j]["args"][0], arg0_d)
    return f


def fact_call_false(fn, callee):
    return lambda e, pol: isinstance(e, int) and _accessor_truth(fn, callee, e, pol) is False


def atomic_store_to(fn, fld, min_order=0):
    """predicate on CFG elements: atomic store (or plain store) to field fld"""
    def f(e):
        n = fn.nodes[e]
        if n["k"] == "AtomicExpr" and n["aop"] in ("store", "exchange") and fn.mentions_field(n["ptr"], fld):
            return n.get("ord", 5) >= min_order
        if n["k"] == "BinaryOperator" and n["op"] == "=" and field_is(fn, n["c"][0], fld):
            return min_order == 0
        return False
    return f


def store_field_const(fn, fld, value):
    """CFG-element predicate: `x->fld = value`, the value being the literal or a plain local that holds it on this path
    (`x->fld = ok;` after `ok = false;`, or the false result of an inlined helper) — reach() passes the per-path constants"""
    def f(e, consts=None):
        n = fn.nodes[e]
        if n["k"] == "BinaryOperator" and n["op"] == "=" and field_is(fn, n["c"][0], fld):
            if fn.cv(n["c"][1]) == value:
                return True
            j = fn.strip(n["c"][1])
            m = fn.nodes[j]
            return bool(consts) and m["k"] == "DeclRefExpr" and consts.get(m.get("d")) == value
        return False
    f.wants_state = True
    return f


def mentions_field_x(fn, i, fld):
    """expression i reads field fld, directly or through a local that merely names such a read (also an inliner temporary)"""
    return fn.mentions_field(i, fld) or (("->" + fld) in canon(fn, i) or ("." + fld) in canon(fn, i))


def _store_field_const_old(fn, fld, value):
    def f(e):
        n = fn.nodes[e]
        return n["k"] == "BinaryOperator" and n["op"] == "=" and field_is(fn, n["c"][0], fld) and fn.cv(n["c"][1]) == value
    return f


def callers_of(prog, name):
    return sorted(prog.callers.get(name, ()))


def consistent_edges(fn, e, pol):
    """edge filter for path queries that start on an edge where `e` has truth value `pol`: excludes edges that
    branch on a textually identical expression the other way (sound only while the operands of e are not re-assigned
    on the path — callers make the re-assignment a `through`/`avoid` element)"""
    cfg = fn.cfg
    key, flip = cfg._ckey(e)
    val = pol != flip

    def ok(lab, p, q):
        for e2, pol2 in cfg.facts(lab):
            if not isinstance(e2, int):
                continue
            k2, f2 = cfg._ckey(e2)
            if k2 == key and (pol2 != f2) != val:
                return False
        return True
    return ok


def single_def(fn, d):
    """the initialiser of local d when that is its only definition (declared with a value, never assigned again, address
    never taken), else None: such a local is just a name for its initialiser"""
    cache = fn.__dict__.setdefault("_single_def", {})
    if d not in cache:
        defs = fn.var_defs(d)
        ok = len(defs) == 1 and defs[0][1] is not None and (defs[0][2] == "decl" or (defs[0][2] == "=" and fn.nodes[defs[0][0]].get("inl_ret")))
        cache[d] = defs[0][1] if ok else None      # (the single `__ret = e` of an inlined one-return helper counts as an initialiser)
    return cache[d]


def canon(fn, i, pmap=None, expand=True, _depth=6):
    """canonical text of an expression with parameters replaced by $k (identity by position, not by name); commutative
    operands are ordered, > and >= are written as < and <=, negated comparisons are folded. With expand=True a local
    that merely names its initialiser (single_def) is replaced by that initialiser, so that introducing or removing
    such a temporary does not change the text; entries of pmap are never expanded."""
    if pmap is None:
        pmap = {d: "$%d" % k for k, d in enumerate(fn.pids)}
    i = fn.strip(i)
    n = fn.nodes[i]
    k = n["k"]
    if "cv" in n and k != "DeclRefExpr":
        return str(n["cv"])
    if k == "DeclRefExpr":
        if expand and n["d"] not in pmap and n.get("dk") == "local" and _depth > 0:
            init = single_def(fn, n["d"])
            if init is not None:
                return canon(fn, init, pmap, expand, _depth - 1)
        return pmap.get(n["d"], n["n"])
    if k == "MemberExpr":
        return canon(fn, n["c"][0], pmap, expand, _depth) + ("->" if n["arrow"] else ".") + n["fld"]
    if k in ("BinaryOperator", "CompoundAssignOperator"):
        a, b = canon(fn, n["c"][0], pmap, expand, _depth), canon(fn, n["c"][1], pmap, expand, _depth)
        op = n["op"]
        if op in ("==", "!=", "+", "*", "&", "|", "&&", "||") and b < a:
            a, b = b, a
        elif op in (">", ">="):
            a, b, op = b, a, SWAP[op]
        return "(%s %s %s)" % (a, op, b)
    if k == "UnaryOperator" and n["op"] == "&":
        # &X[0] is X (array decay), &X[i] is X + i
        a = fn.strip(n["c"][0])
        if fn.nodes[a]["k"] == "ArraySubscriptExpr":
            base, idx = canon(fn, fn.nodes[a]["c"][0], pmap, expand, _depth), fn.nodes[a]["c"][1]
            if fn.cv(idx) == 0:
                return base
            x, y = base, canon(fn, idx, pmap, expand, _depth)
            if y < x:
                x, y = y, x
            return "(%s + %s)" % (x, y)
    if k == "UnaryOperator" and n["op"] == "*":
        # *(X + i) is X[i]
        a = fn.strip(n["c"][0])
        an = fn.nodes[a]
        if an["k"] == "BinaryOperator" and an["op"] == "+" and fn.cv(a) is None:
            l, r = an["c"]
            lt, rt = fn.nodes[fn.strip(l)].get("t", ""), fn.nodes[fn.strip(r)].get("t", "")
            if "*" in rt or "[" in rt:
                l, r = r, l
            return canon(fn, l, pmap, expand, _depth) + "[" + canon(fn, r, pmap, expand, _depth) + "]"
    if k == "UnaryOperator":
        if n["op"] == "!":
            c = cmp_parts(fn, i)
            if c is not None:
                # `!(a < b)` is spelled like `a >= b`
                a, b, op = canon(fn, c[1], pmap, expand, _depth), canon(fn, c[2], pmap, expand, _depth), c[0]
                if op in ("==", "!=") and b < a:
                    a, b = b, a
                elif op in (">", ">="):
                    a, b, op = b, a, SWAP[op]
                return "(%s %s %s)" % (a, op, b)
        return n["op"] + canon(fn, n["c"][0], pmap, expand, _depth)
    if k == "CallExpr":
        return (n.get("callee") or canon(fn, n["fn"], pmap, expand, _depth)) + "(" + ", ".join(canon(fn, a, pmap, expand, _depth) for a in n["args"]) + ")"
    if k == "ConditionalOperator":
        return "(%s ? %s : %s)" % (canon(fn, n["cond"], pmap, expand, _depth), canon(fn, n["then"], pmap, expand, _depth), canon(fn, n["else"], pmap, expand, _depth))
    if k == "ArraySubscriptExpr":
        return canon(fn, n["c"][0], pmap, expand, _depth) + "[" + canon(fn, n["c"][1], pmap, expand, _depth) + "]"
    if "cv" in n:
        return str(n["cv"])
    return fn.text(i)


def dnf(fn, i, neg=False, pmap=None):
    """disjunctive normal form of a boolean expression over && || ! : frozenset of frozensets of (atom, polarity)"""
    i = fn.strip(i)
    n = fn.nodes[i]
    if n["k"] == "BinaryOperator" and n["op"] in ("&&", "||"):
        is_and = (n["op"] == "&&") != neg
        a, b = dnf(fn, n["c"][0], neg, pmap), dnf(fn, n["c"][1], neg, pmap)
        if is_and:
            return frozenset(x | y for x in a for y in b)
        return a | b
    if n["k"] == "UnaryOperator" and n["op"] == "!":
        return dnf(fn, n["c"][0], not neg, pmap)
    c = cmp_parts(fn, i)
    if c is not None and c[0] in ("==", "!="):
        pol = (c[0] == "==") != neg
        a, b = canon(fn, c[1], pmap), canon(fn, c[2], pmap)
        if b < a:
            a, b = b, a
        return frozenset([frozenset([("%s == %s" % (a, b), pol)])])
    if c is not None:
        # order comparisons: the negation is folded into the operator and the atom is written with < or <=
        op, a, b = (NEG[c[0]] if neg else c[0]), canon(fn, c[1], pmap), canon(fn, c[2], pmap)
        if op in (">", ">="):
            op, a, b = SWAP[op], b, a
        return frozenset([frozenset([("%s %s %s" % (a, op, b), True)])])
    return frozenset([frozenset([(canon(fn, i, pmap), not neg)])])


def reaching_defs(fn, d, node):
    """definitions (assign-node, rhs, op) of variable d that reach `node` without an intervening re-definition"""
    cfg = fn.cfg
    defs = [(a, rhs, op) for a, rhs, op in fn.var_defs(d) if op != "addr"]
    sites = {a for a, _, _ in defs}
    out = []
    tgt = cfg.pt(node)
    for a, rhs, op in defs:
        start = cfg.after(a)
        if start is None:
            continue
        if tgt in cfg.reach([start], avoid=lambda e, a=a: e in sites and e != a):
            out.append((a, rhs, op))
    return out
