"""P8 — abstract interpreter for the integer functions of mimalloc (DESIGN §2.3 P8, appendix B).

Evaluates the *extracted expression/statement trees* (never the compiled code) over intervals of mathematical integers with C typing
(width, signedness, wrap-around detection). Imprecision is never papered over: an operation whose abstract result would be unsound or
undecided raises `Split`, and the driver (prove) bisects the input cell; a proof needs every cell decided; exhaustion of the budget is an
analysis failure, never a pass. Singleton intervals make the same machinery an exact evaluator, used only to produce concrete witnesses.

Also provides `Based` values (K-aligned opaque base + interval offset) for pointer arithmetic such as _mi_ptr_segment.
"""


class Split(Exception):
    """the current cell is too coarse: the driver must refine it (optionally at `at` for input index `which`)"""
    def __init__(self, why="", which=None, at=None):
        Exception.__init__(self, why)
        self.which, self.at = which, at


class Unsupported(Exception):
    pass


class AssertionMayFail(Exception):
    def __init__(self, where, definite):
        Exception.__init__(self, where)
        self.where, self.definite = where, definite


class AV:
    """interval [lo,hi] of mathematical integers, typed (w bits; signed)"""
    __slots__ = ("lo", "hi", "w", "signed")

    def __init__(self, lo, hi=None, w=64, signed=False):
        self.lo, self.hi = lo, (lo if hi is None else hi)
        self.w, self.signed = w, signed

    def const(self):
        return self.lo if self.lo == self.hi else None

    def __repr__(self):
        return "[%d,%d]%s%d" % (self.lo, self.hi, "i" if self.signed else "u", self.w) if self.lo != self.hi else "%d" % self.lo


class Based:
    """base*2^k + off, base opaque (any integer >= 1), off an AV within [0, 2^(k+1))"""
    __slots__ = ("k", "off", "dbase")

    def __init__(self, k, off, dbase=0):
        self.k, self.off, self.dbase = k, off, dbase

    def __repr__(self):
        return "B%+d*2^%d+%r" % (self.dbase, self.k, self.off)


class Residue:
    """an opaque integer/pointer X of which only X mod m == r is known"""
    __slots__ = ("m", "r")

    def __init__(self, m, r):
        self.m, self.r = m, r

    def __repr__(self):
        return "X(≡%d mod %d)" % (self.r, self.m)


def trange(w, signed):
    return (-(1 << (w - 1)), (1 << (w - 1)) - 1) if signed else (0, (1 << w) - 1)


def fit(lo, hi, w, signed):
    """normalise a mathematical interval to the C type; raise Split if it straddles a wrap point"""
    tlo, thi = trange(w, signed)
    if tlo <= lo and hi <= thi:
        return AV(lo, hi, w, signed)
    if signed:
        raise Split("signed overflow")
    m = 1 << w
    if lo // m == hi // m:
        return AV(lo % m, hi % m, w, signed)
    raise Split("unsigned wrap-around inside the cell")


def clz64(x):
    return 64 - x.bit_length()


def ctz64(x):
    return (x & -x).bit_length() - 1


class Interp:
    def __init__(self, prog, max_depth=8, loop_bound=600):
        self.prog = prog
        self.max_depth = max_depth
        self.loop_bound = loop_bound
        self.steps = 0
        self.opaque = {}     # callee name -> function(args)->AV for runtime-dependent helpers (e.g. _mi_os_page_size)
        self.asserts_checked = 0

    # ---- entry
    def call(self, fname, args, depth=0):
        if fname in self.opaque:
            return self.opaque[fname](args)
        f = self.prog.fns.get(fname)
        if f is None:
            raise Unsupported("call to %s (not defined in the library)" % fname)
        if depth > self.max_depth:
            raise Unsupported("inlining depth exceeded at %s" % fname)
        env = {}
        for k, pid in enumerate(f.pids):
            if k < len(args):
                env[pid] = self.coerce(args[k], f.d["params"][k]["t"])
        r = self.exec_stmt(f, f.d["body"], env, depth)
        if r is None or r[0] != "ret":
            if f.d["ret"] == "void":
                return None
            raise Unsupported("%s: control reaches the end without a return" % fname)
        return r[1]

    def coerce(self, v, tname):
        if isinstance(v, AV):
            w, s = self.type_ws(tname)
            if w and (w != v.w or s != v.signed):
                return fit(v.lo, v.hi, w, s)
        return v

    @staticmethod
    def type_ws(t):
        t = t.replace("const ", "").strip()
        table = {"size_t": (64, False), "uintptr_t": (64, False), "uint64_t": (64, False), "unsigned long": (64, False), "intptr_t": (64, True), "ptrdiff_t": (64, True),
                 "long": (64, True), "int64_t": (64, True), "int": (32, True), "unsigned int": (32, False), "uint32_t": (32, False), "int32_t": (32, True),
                 "uint16_t": (16, False), "uint8_t": (8, False), "_Bool": (1, False), "long long": (64, True), "unsigned long long": (64, False), "uintmax_t": (64, False),
                 "mi_bitmap_index_t": (64, False)}
        return table.get(t, (0, False))

    # ---- statements: returns None (fall through) | ("ret", value) | ("break",) | ("continue",)
    def exec_stmt(self, f, i, env, depth):
        self.steps += 1
        n = f.nodes[i]
        k = n["k"]
        if k == "CompoundStmt":
            for c in f.kids(i):
                r = self.exec_stmt(f, c, env, depth)
                if r is not None:
                    return r
            return None
        if k == "DeclStmt":
            for dd in n["decls"]:
                if "init" in dd:
                    v = self.eval(f, dd["init"], env, depth)
                    env[dd["d"]] = self.coerce(v, dd["t"])
                else:
                    env[dd["d"]] = None
            return None
        if k == "ReturnStmt":
            if "val" not in n:
                return ("ret", None)
            v = self.eval(f, n["val"], env, depth)
            return ("ret", self.coerce(v, f.d["ret"]))
        if k == "IfStmt":
            c = self.truth(f, n["cond"], env, depth)
            if c is True:
                return self.exec_stmt(f, n["then"], env, depth)
            if c is False:
                return self.exec_stmt(f, n["else"], env, depth) if "else" in n else None
            raise Split("undecided branch at %s" % f.loc(i))
        if k in ("WhileStmt", "ForStmt", "DoStmt"):
            if k == "ForStmt" and "init" in n:
                self.exec_stmt(f, n["init"], env, depth)
            it = 0
            first = (k == "DoStmt")
            while True:
                if not first:
                    c = True if "cond" not in n else self.truth(f, n["cond"], env, depth)
                    if c is None:
                        raise Split("undecided loop condition at %s" % f.loc(i))
                    if c is False:
                        break
                first = False
                r = self.exec_stmt(f, n["body"], env, depth)
                if r is not None:
                    if r[0] == "ret":
                        return r
                    if r[0] == "break":
                        break
                if k == "ForStmt" and "inc" in n:
                    self.eval(f, n["inc"], env, depth)
                it += 1
                if it > self.loop_bound:
                    raise Unsupported("loop bound exceeded at %s" % f.loc(i))
            return None
        if k == "BreakStmt":
            return ("break",)
        if k == "ContinueStmt":
            return ("continue",)
        if k == "NullStmt":
            return None
        if k in ("LabelStmt", "GotoStmt", "SwitchStmt"):
            raise Unsupported("%s at %s" % (k, f.loc(i)))
        # expression statement
        self.eval(f, i, env, depth)
        return None

    def truth(self, f, i, env, depth):
        v = self.eval(f, i, env, depth)
        if isinstance(v, Based):
            return True
        if v is None:
            raise Unsupported("void value used as condition at %s" % f.loc(i))
        if v.lo > 0 or v.hi < 0:
            return True
        if v.lo == 0 and v.hi == 0:
            return False
        return None

    # ---- expressions
    def eval(self, f, i, env, depth):
        self.steps += 1
        n = f.nodes[i]
        k = n["k"]
        w = n.get("w", 0)
        tw, ts = (abs(w), w < 0) if w else (64, False)
        if k in ("IntegerLiteral", "CharacterLiteral"):
            return AV(int(n["v"]), None, tw, ts)
        if "cv" in n and k not in ("DeclRefExpr",):
            # folded by clang (sizeof, macro arithmetic, enumerators): an exact constant
            return AV(int(n["cv"]), None, tw, ts) if w else AV(int(n["cv"]))
        if k == "ParenExpr" or k == "ConstantExpr":
            return self.eval(f, n["c"][0], env, depth)
        if k == "DeclRefExpr":
            if n["dk"] == "enum":
                return AV(int(n["cv"]), None, tw, ts)
            if n["dk"] in ("local", "parm"):
                if n["d"] not in env or env[n["d"]] is None:
                    # single-definition local evaluated on demand (used when an expression is evaluated out of its statement context)
                    defs = [rhs for a, rhs, op in f.var_defs(n["d"]) if rhs is not None] if getattr(self, "lazy_locals", False) else []
                    if len(defs) == 1 and depth < self.max_depth:
                        env[n["d"]] = self.eval(f, defs[0], env, depth + 1)
                        return env[n["d"]]
                    raise Unsupported("read of uninitialised/unknown variable %s at %s" % (n["n"], f.loc(i)))
                return env[n["d"]]
            if n["dk"] == "global":
                return ("global", n["n"])
            raise Unsupported("reference to %s" % n["n"])
        if k in ("ImplicitCastExpr", "CStyleCastExpr"):
            ck = n.get("ck")
            v = self.eval(f, n["c"][0], env, depth)
            if ck in ("LValueToRValue", "NoOp", "FunctionToPointerDecay", "ArrayToPointerDecay", "BitCast", "ToVoid"):
                return v
            if ck in ("IntegralCast", "IntegralToBoolean", "PointerToIntegral", "IntegralToPointer", "PointerToBoolean"):
                if isinstance(v, (Based, Residue)):
                    return v
                if ck in ("IntegralToBoolean", "PointerToBoolean"):
                    if v.lo > 0 or v.hi < 0:
                        return AV(1, 1, 1, False)
                    if v.lo == v.hi == 0:
                        return AV(0, 0, 1, False)
                    raise Split("undecided truth value")
                if not w:
                    return v
                return fit(v.lo, v.hi, tw, ts) if not (ts is False and v.lo < 0) else self._to_unsigned(v, tw)
            if ck == "NullToPointer":
                return AV(0)
            raise Unsupported("cast kind %s at %s" % (ck, f.loc(i)))
        if k == "UnaryOperator":
            op = n["op"]
            if op in ("post++", "post--", "pre++", "pre--"):
                d = self._lvar(f, n["c"][0])
                old = env[d]
                delta = 1 if "++" in op else -1
                new = fit(old.lo + delta, old.hi + delta, old.w, old.signed)
                env[d] = new
                return old if op.startswith("post") else new
            v = self.eval(f, n["c"][0], env, depth)
            if op == "!":
                if isinstance(v, Based):
                    return AV(0, 0, 32, True)
                if v.lo > 0 or v.hi < 0:
                    return AV(0, 0, 32, True)
                if v.lo == v.hi == 0:
                    return AV(1, 1, 32, True)
                raise Split("undecided negation")
            if op == "-":
                return fit(-v.hi, -v.lo, tw, ts) if ts else self._to_unsigned(AV(-v.hi, -v.lo), tw)
            if op == "~":
                c = v.const()
                if c is None:
                    raise Split("~ of a non-constant")
                return AV((~c) & ((1 << tw) - 1), None, tw, ts) if not ts else AV(~c, None, tw, ts)
            if op == "+":
                return v
            if op == "*" or op == "&":
                raise Unsupported("pointer operation %s at %s" % (op, f.loc(i)))
            raise Unsupported("unary %s" % op)
        if k == "BinaryOperator":
            op = n["op"]
            if op == "=":
                d = self._lvar(f, n["c"][0])
                v = self.eval(f, n["c"][1], env, depth)
                env[d] = v
                return v
            if op == "&&":
                a = self.truth(f, n["c"][0], env, depth)
                if a is False:
                    return AV(0, 0, 32, True)
                b = self.truth(f, n["c"][1], env, depth)
                if a is True and b is not None:
                    return AV(1 if b else 0, None, 32, True)
                if b is False:
                    return AV(0, 0, 32, True)
                raise Split("undecided &&")
            if op == "||":
                a = self.truth(f, n["c"][0], env, depth)
                if a is True:
                    return AV(1, 1, 32, True)
                b = self.truth(f, n["c"][1], env, depth)
                if a is False and b is not None:
                    return AV(1 if b else 0, None, 32, True)
                if b is True:
                    return AV(1, 1, 32, True)
                raise Split("undecided ||")
            if op == ",":
                self.eval(f, n["c"][0], env, depth)
                return self.eval(f, n["c"][1], env, depth)
            a = self.eval(f, n["c"][0], env, depth)
            b = self.eval(f, n["c"][1], env, depth)
            return self.binop(op, a, b, tw, ts, f, i)
        if k == "CompoundAssignOperator":
            d = self._lvar(f, n["c"][0])
            a = env[d]
            b = self.eval(f, n["c"][1], env, depth)
            op = n["op"][:-1]
            # computation happens in the promoted type, then converts back to the variable's type
            r = self.binop(op, a, b, max(a.w, 32) if isinstance(a, AV) else 64, a.signed if isinstance(a, AV) else False, f, i)
            if isinstance(r, AV) and isinstance(a, AV):
                r = fit(r.lo, r.hi, a.w, a.signed)
            env[d] = r
            return r
        if k == "ConditionalOperator":
            c = self.truth(f, n["cond"], env, depth)
            if c is None:
                raise Split("undecided ?: at %s" % f.loc(i))
            return self.eval(f, n["then"] if c else n["else"], env, depth)
        if k == "CallExpr":
            cal = n.get("callee")
            args = [self.eval(f, a, env, depth) for a in n["args"]] if cal not in ("_mi_assert_fail",) else []
            if cal == "__builtin_expect":
                return args[0]
            if cal in ("__builtin_clzl", "__builtin_clzll"):
                v = args[0]
                if v.lo <= 0:
                    raise Split("clz of a range containing 0")
                return AV(clz64(v.hi), clz64(v.lo), 32, True)
            if cal in ("__builtin_ctzl", "__builtin_ctzll"):
                c = args[0].const()
                if c is None or c == 0:
                    raise Split("ctz of a non-constant")
                return AV(ctz64(c), None, 32, True)
            if cal == "_mi_assert_fail":
                raise AssertionMayFail(f.loc(i), True)
            if cal is None:
                raise Unsupported("indirect call at %s" % f.loc(i))
            return self.call(cal, args, depth + 1)
        if k == "ArraySubscriptExpr" or k == "MemberExpr":
            return self.read_global(f, i, env, depth)
        if k == "UnaryExprOrTypeTraitExpr":
            raise Unsupported("sizeof without folded value")
        if k == "StmtExpr":
            raise Unsupported("statement expression")
        raise Unsupported("%s at %s" % (k, f.loc(i)))

    def _to_unsigned(self, v, w):
        m = 1 << w
        if v.lo // m == v.hi // m:
            return AV(v.lo % m, v.hi % m, w, False)
        raise Split("conversion to unsigned straddles zero")

    def _lvar(self, f, i):
        j = f.strip(i)
        n = f.nodes[j]
        if n["k"] == "DeclRefExpr" and n["dk"] in ("local", "parm"):
            return n["d"]
        raise Unsupported("store to %s at %s" % (f.text(j), f.loc(j)))

    def read_global(self, f, i, env, depth):
        """constant table reads such as _mi_heap_empty.pages[bin].block_size (singleton index)"""
        path = []
        j = i
        while True:
            n = f.nodes[j]
            if n["k"] == "MemberExpr":
                path.append(("f", n["fld"]))
                j = n["c"][0]
            elif n["k"] == "ArraySubscriptExpr":
                idx = self.eval(f, n["c"][1], env, depth)
                c = idx.const() if isinstance(idx, AV) else None
                if c is None:
                    raise Split("table index is not a single value")
                path.append(("i", c))
                j = n["c"][0]
            elif n["k"] in ("ImplicitCastExpr", "ParenExpr", "CStyleCastExpr"):
                j = n["c"][0]
            elif n["k"] == "DeclRefExpr" and n["dk"] == "global":
                g = self.prog.globals.get(n["n"])
                if g is None or "val" not in g:
                    raise Unsupported("global %s has no folded initialiser" % n["n"])
                v = g["val"]
                for kind, key in reversed(path):
                    if kind == "f":
                        if not isinstance(v, dict) or key not in v:
                            raise Unsupported("field %s not in folded initialiser of %s" % (key, n["n"]))
                        v = v[key]
                    else:
                        if not isinstance(v, list) or key < 0 or key >= len(v):
                            raise AssertionMayFail("%s: index %d outside %s[%d]" % (f.loc(i), key, n["n"], len(v) if isinstance(v, list) else -1), True)
                        v = v[key]
                if not isinstance(v, int):
                    if isinstance(v, str) and v.lstrip("-").isdigit():
                        v = int(v)
                    else:
                        raise Unsupported("non-integer table entry")
                w = f.nodes[i].get("w", 64)
                return AV(v, None, abs(w) or 64, w < 0)
            else:
                raise Unsupported("memory read %s at %s" % (f.text(i), f.loc(i)))

    def binop(self, op, a, b, tw, ts, f=None, i=None):
        if isinstance(a, Residue):
            c = b.const() if isinstance(b, AV) else None
            if op == "%" and c is not None and c > 0 and a.m % c == 0:
                return AV(a.r % c, None, tw, ts)
            if op == "&" and c is not None and c & (c + 1) == 0 and a.m % (c + 1) == 0:
                return AV(a.r & c, None, tw, ts)
            if op == "+" and isinstance(b, AV) and b.const() is not None:
                return Residue(a.m, (a.r + b.const()) % a.m)
            raise Unsupported("operation %s on a residue value" % op)
        if isinstance(a, Based) or isinstance(b, Based):
            return self.based_op(op, a, b, tw, ts)
        if a is None or b is None or isinstance(a, tuple) or isinstance(b, tuple):
            raise Unsupported("operand without integer value for %s" % op)
        if op in ("==", "!=", "<", "<=", ">", ">="):
            r = self.compare(op, a, b)
            if r is None:
                # refine towards the comparison boundary when one side is constant
                raise Split("undecided comparison %s %s %s" % (a, op, b))
            return AV(1 if r else 0, None, 32, True)
        if op == "+":
            return fit(a.lo + b.lo, a.hi + b.hi, tw, ts)
        if op == "-":
            return fit(a.lo - b.hi, a.hi - b.lo, tw, ts)
        if op == "*":
            ps = [a.lo * b.lo, a.lo * b.hi, a.hi * b.lo, a.hi * b.hi]
            return fit(min(ps), max(ps), tw, ts)
        if op == "/":
            if b.lo <= 0 <= b.hi:
                raise AssertionMayFail("division by a range containing 0", b.lo == b.hi == 0)
            if a.lo < 0 or b.lo < 0:
                c = b.const()
                if c is None or a.lo < 0:
                    raise Split("signed division")
            qs = [a.lo // b.lo, a.lo // b.hi, a.hi // b.lo, a.hi // b.hi]
            return fit(min(qs), max(qs), tw, ts)
        if op == "%":
            c = b.const()
            if c is None or c <= 0 or a.lo < 0:
                raise Split("modulo by a non-constant")
            if a.lo // c == a.hi // c:
                return AV(a.lo % c, a.hi % c, tw, ts)
            return AV(0, c - 1, tw, ts)
        if op == "<<":
            c = b.const()
            if c is None:
                raise Split("shift by a non-constant")
            if c >= tw or c < 0:
                raise AssertionMayFail("shift by %d in a %d-bit type" % (c, tw), True)
            return fit(a.lo << c, a.hi << c, tw, ts)
        if op == ">>":
            c = b.const()
            if c is None:
                raise Split("shift by a non-constant")
            if c >= max(tw, a.w) or c < 0:
                raise AssertionMayFail("shift by %d in a %d-bit type" % (c, tw), True)
            if a.lo < 0:
                raise Split("shift of a negative value")
            return AV(a.lo >> c, a.hi >> c, tw, ts)
        if op in ("&", "|", "^"):
            ca, cb = a.const(), b.const()
            if ca is not None and cb is not None:
                r = {"&": ca & cb, "|": ca | cb, "^": ca ^ cb}[op]
                return fit(r, r, tw, ts) if r >= 0 or ts else AV(r & ((1 << tw) - 1), None, tw, ts)
            if op == "&":
                x, c = (a, cb) if cb is not None else (b, ca)
                if c is None:
                    raise Split("& of two ranges")
                if c < 0:
                    c &= (1 << tw) - 1
                # low mask 2^k-1
                if c & (c + 1) == 0:
                    k = c.bit_length()
                    if x.lo >> k == x.hi >> k:
                        return AV(x.lo & c, x.hi & c, tw, ts)
                    return AV(0, c, tw, ts)
                # high mask ~(2^k-1) (within the width)
                inv = (~c) & ((1 << tw) - 1)
                if inv & (inv + 1) == 0:
                    return AV(x.lo & c, x.hi & c, tw, ts)   # monotone: clears low bits
                raise Split("& with an irregular mask over a range")
            if op == "|":
                x, c = (a, cb) if cb is not None else (b, ca)
                if c is None:
                    raise Split("| of two ranges")
                if c == 0:
                    return x
                # or-ing a low mask into a value whose low bits are known zero is an addition
                if c & (c + 1) == 0:
                    k = c.bit_length()
                    if x.lo % (1 << k) == 0 and x.hi % (1 << k) == 0 and x.lo == x.hi:
                        return AV(x.lo | c, None, tw, ts)
                raise Split("| over a range")
            raise Split("^ over a range")
        raise Unsupported("binary %s" % op)

    @staticmethod
    def compare(op, a, b):
        if op == "==":
            if a.lo == a.hi == b.lo == b.hi:
                return True
            if a.hi < b.lo or b.hi < a.lo:
                return False
            return None
        if op == "!=":
            r = Interp.compare("==", a, b)
            return None if r is None else (not r)
        if op == "<":
            return True if a.hi < b.lo else False if a.lo >= b.hi else None
        if op == "<=":
            return True if a.hi <= b.lo else False if a.lo > b.hi else None
        if op == ">":
            return Interp.compare("<", b, a)
        if op == ">=":
            return Interp.compare("<=", b, a)
        return None

    def based_op(self, op, a, b, tw, ts):
        if isinstance(a, AV) and isinstance(b, Based):
            # the same operation written the other way round
            sw = {"+": "+", "&": "&", "==": "==", "!=": "!=", "<": ">", ">": "<", "<=": ">=", ">=": "<="}
            if op in sw:
                return self.based_op(sw[op], b, a, tw, ts)
        if isinstance(a, Based) and isinstance(b, AV):
            c = b.const()
            if op == "+":
                return Based(a.k, fit(a.off.lo + b.lo, a.off.hi + b.hi, 64, True), a.dbase)
            if op == "-":
                return Based(a.k, fit(a.off.lo - b.hi, a.off.hi - b.lo, 64, True), a.dbase)
            if op == "&" and c is not None:
                if c < 0:
                    c &= (1 << 64) - 1
                K = 1 << a.k
                inv = (~c) & ((1 << 64) - 1)
                if a.off.lo < 0:
                    raise Split("negative offset under a mask")
                if inv & (inv + 1) == 0 and inv < K:
                    # ~(2^j-1), j <= k: base bits survive, offset is aligned down
                    j = inv.bit_length()
                    lo, hi = a.off.lo & ~inv, a.off.hi & ~inv
                    return Based(a.k, AV(lo, hi, 64, True), a.dbase)
                if c & (c + 1) == 0 and c < K:
                    kk = c.bit_length()
                    if a.off.lo >> kk == a.off.hi >> kk:
                        return AV(a.off.lo & c, a.off.hi & c, tw, ts)
                    return AV(0, c, tw, ts)
                raise Unsupported("mask %x on a based value" % c)
            if op in ("==", "!=", "<", "<=", ">", ">=") and c is not None and 0 <= c < (1 << a.k) and a.off.lo >= 0 and a.dbase >= 0:
                # base >= 1: the value is at least 2^k > c
                return AV(1 if op in ("!=", ">", ">=") else 0, None, 32, True)
            if op == "%" and c is not None and c > 0 and c & (c - 1) == 0 and c <= (1 << a.k) and a.off.lo >= 0:
                if a.off.lo // c == a.off.hi // c:
                    return AV(a.off.lo % c, a.off.hi % c, tw, ts)
                return AV(0, c - 1, tw, ts)
        if isinstance(a, Based) and isinstance(b, Based) and a.k == b.k:
            if op == "-":
                d = (a.dbase - b.dbase) << a.k
                return fit(d + a.off.lo - b.off.hi, d + a.off.hi - b.off.lo, tw or 64, True)
            if op in ("==", "!=", "<", "<=", ">", ">=") and a.dbase == b.dbase:
                r = self.compare(op, a.off, b.off)
                if r is None:
                    raise Split("undecided pointer comparison")
                return AV(1 if r else 0, None, 32, True)
        raise Unsupported("operation %s on based values" % op)


# ------------------------------------------------------------------------------------------------
# proof driver

class ProofResult:
    def __init__(self):
        self.cells = 0
        self.proved = 0
        self.largest = []
        self.violation = None     # (inputs, message)
        self.unknown = None       # message


def prove(evaluate, cells, post, budget=20000, min_width=1):
    """evaluate(cell) -> abstract result (cell: tuple of (lo,hi) per input); post(cell, result) -> True / False / None.
    Every cell must be decided True. A cell decided False yields a violation with the cell's low corner as witness (the abstract result
    over-approximates: `definitely false` holds for every point of the cell). Undecided cells are bisected on their widest input."""
    res = ProofResult()
    work = list(cells)
    while work:
        cell = work.pop()
        res.cells += 1
        if res.cells > budget:
            res.unknown = "cell budget (%d) exhausted; last cell %s" % (budget, cell)
            return res
        verdict = None
        why = ""
        try:
            r = evaluate(cell)
            verdict = post(cell, r)
            if verdict is None:
                why = "postcondition undecided on %r" % (r,)
        except Split as s:
            why = str(s)
        except AssertionMayFail as a:
            if all(lo == hi for lo, hi in cell) or a.definite and False:
                res.violation = (tuple(lo for lo, hi in cell), "assertion fails: %s" % a.where)
                return res
            why = "assertion may fail: %s" % a.where
        if verdict is True:
            res.proved += 1
            width = max(hi - lo for lo, hi in cell)
            res.largest.append((width, cell))
            res.largest = sorted(res.largest, reverse=True)[:5]
            continue
        if verdict is False:
            res.violation = (tuple(lo for lo, hi in cell), "postcondition false on the whole cell %s" % (cell,))
            # sharpen to a single point when possible
            try:
                pt = tuple((lo, lo) for lo, hi in cell)
                rp = evaluate(pt)
                if post(pt, rp) is False:
                    res.violation = (tuple(lo for lo, hi in cell), "postcondition false at this input (result %r)" % (rp,))
            except Exception:
                pass
            return res
        # refine
        k = max(range(len(cell)), key=lambda j: cell[j][1] - cell[j][0])
        lo, hi = cell[k]
        if hi - lo < min_width:
            res.unknown = "cannot decide single-point cell %s: %s" % (cell, why)
            return res
        mid = (lo + hi) // 2
        a = list(cell); a[k] = (lo, mid)
        b = list(cell); b[k] = (mid + 1, hi)
        work.append(tuple(b))
        work.append(tuple(a))
    return res
