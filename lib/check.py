"""Check context: rule instances, verdicts, known findings, evidence, exit codes (DESIGN §2.4)."""
import json, os, sys, time, traceback
import facts
from facts import AnalysisBroken, VERIF

KNOWN_FILE = os.path.join(VERIF, "known_findings.json")
EVID_DIR = os.environ.get("MIVERIF_EVIDENCE_DIR", os.path.join(VERIF, "evidence"))


class Ctx:
    def __init__(self, pid, tier, level="other", repo=None, quiet=False):
        self.pid = pid
        self.tier = tier
        self.level = level
        self.repo = repo or facts.REPO
        self.t0 = time.time()
        self.instances = []      # dicts: rule, site, what, ok, key, witness
        self.rules = {}          # rule -> statement
        self.floors = {}         # rule -> (count, floor)
        self.broken = []
        self.configs = {}
        self.notes = []
        self.quiet = quiet
        self.cells = 0
        self.explanation = ""
        self.trusted = ["clang 14 front end, constant folder and CFG builder", "/verif/engine/mifacts.cc (fact extractor)",
                        "/verif/lib (path/dataflow algorithms) and /verif/rules (rule instances, frozen tables)"]
        self.assumptions = []

    # ---- programs
    def prog(self, config="REL"):
        if config not in self.configs:
            self.configs[config] = facts.program(config, self.repo)
        return self.configs[config]

    # ---- recording
    def _caller_source(self, depth):
        """source text of the rule function `depth` frames up (used to see which reference functions a rule is anchored in)"""
        import inspect
        try:
            fr = sys._getframe(depth + 1)
            return inspect.getsource(fr.f_code)
        except Exception:
            return ""

    def rule(self, rid, statement):
        self.rules[rid] = statement
        self.cur = rid
        self.__dict__.setdefault("rule_src", {})[rid] = self._caller_source(1)
        return rid

    def ok(self, rule, site, what):
        self.instances.append(dict(rule=rule, site=site, what=what, ok=True))

    def fail(self, rule, site, what, key=None, witness=None, _depth=1):
        self.instances.append(dict(rule=rule, site=site, what=what, ok=False, key=key or ("%s@%s" % (rule, site)), witness=witness,
                                   src=self._caller_source(_depth)))

    def check(self, rule, cond, site, what, key=None, witness=None):
        if cond:
            self.ok(rule, site, what)
        else:
            self.fail(rule, site, what, key=key, witness=witness, _depth=2)
        return cond

    def floor(self, rule, minimum):
        n = sum(1 for i in self.instances if i["rule"] == rule)
        self.floors[rule] = (n, minimum)
        if n < minimum:
            self.broken.append("rule %s matched %d instances, fewer than the %d confirmed on the pinned tree (anchor drift?)" % (rule, n, minimum))

    def broke(self, msg):
        self.broken.append(msg)

    def note(self, msg):
        self.notes.append(msg)

    # ---- finish
    def finish(self):
        known = []
        try:
            with open(KNOWN_FILE) as f:
                kf = json.load(f)
            known = [k for k in kf.get("findings", []) if k.get("status") == "known" and k.get("property") == self.pid]
        except FileNotFoundError:
            pass
        viol = [i for i in self.instances if not i["ok"]]
        # anchor drift: the rules of this property are anchored in functions of the reference tree; when one of those was renamed
        # beyond recognition, inlined into its callers, removed, or changed its parameter list, what the rules report about it
        # is not a verdict about behaviour. Such a run is ANALYSIS-BROKEN (exit 2): neither a pass nor a violation.
        drift = {}
        for c, pr in self.configs.items():
            for nm, why in getattr(pr, "drift", {}).items():
                drift.setdefault(nm, why)
        undecided, why_und = [], {}
        if drift and viol:
            import re as _re
            keep = []
            for v in viol:
                text = self.__dict__.get("rule_src", {}).get(v["rule"], "") + v.get("src", "")
                used = set(_re.findall(r"[A-Za-z_][A-Za-z_0-9]*", text))
                # a rule that asks prog.has("<name>") deals with the absence of that function itself
                hit = {nm: why for nm, why in drift.items() if nm in used and ('has("%s")' % nm) not in text}
                if hit:
                    undecided.append(v)
                    why_und.update(hit)
                else:
                    keep.append(v)
            viol = keep
        if undecided:
            self.broken.append("reference function(s) the reporting rule(s) are anchored in have drifted: %s — %d rule instance(s) cannot be decided on this tree: %s" % (
                "; ".join("%s %s" % (nm, why) for nm, why in sorted(why_und.items())), len(undecided), ", ".join(sorted({v["rule"] for v in undecided}))))
            self.undecided = undecided
        reported, suppressed = [], []
        for v in viol:
            base = v["key"]
            for suf in (":SEC", ":DBG", ":PAD"):
                if base.endswith(suf):
                    base = base[:-len(suf)]
            k = next((k for k in known if k.get("key") in (v["key"], base)), None)
            if k is not None:
                suppressed.append((v, k))
            else:
                reported.append(v)
        os.makedirs(os.path.join(EVID_DIR, "violations"), exist_ok=True)
        out = []
        for v, k in suppressed:
            out.append("KNOWN-FINDING: property=%s %s [%s at %s: %s]" % (self.pid, k.get("what", ""), v["rule"], v["site"], v["what"]))
        n = 0
        for v in reported:
            n += 1
            path = os.path.join(EVID_DIR, "violations", "%s-%s-%d.json" % (self.pid, v["rule"].replace(".", "_"), n))
            with open(path, "w") as f:
                json.dump(dict(property=self.pid, rule=v["rule"], statement=self.rules.get(v["rule"], ""), site=v["site"],
                               what=v["what"], key=v["key"], witness=v.get("witness"), tier=self.tier,
                               configs=sorted(self.configs), repo=self.repo), f, indent=1)
            out.append("%s: rule %s (%s): %s%s" % (v["site"], v["rule"], self.rules.get(v["rule"], ""), v["what"],
                                                   (" | witness path lines: %s" % v["witness"]) if v.get("witness") else ""))
            out.append("VIOLATION property=%s replay=%s" % (self.pid, path))
        status = 0
        if self.broken:
            status = 2
        if reported:
            status = 1
        self._evidence(viol, reported, suppressed)
        if not self.quiet:
            per_rule = {}
            for i in self.instances:
                a = per_rule.setdefault(i["rule"], [0, 0])
                a[0] += 1
                a[1] += 0 if i["ok"] else 1
            for r in sorted(per_rule):
                print("  %-10s %3d instances, %d failing   %s" % (r, per_rule[r][0], per_rule[r][1], self.rules.get(r, "")[:110]))
            for m in self.notes:
                print("  note: " + m)
            for b in self.broken:
                print("ANALYSIS-BROKEN property=%s %s" % (self.pid, b))
            for l in out:
                print(l)
            print("%s %s: %d rule instances over configs %s, %d violations (%d known), exit %d, %.1fs" % (
                self.pid, self.tier, len(self.instances), ",".join(sorted(self.configs)), len(reported), len(suppressed), status, time.time() - self.t0))
        return status

    def _evidence(self, viol, reported, suppressed):
        nontrivial = {(i["rule"], i["site"], i["what"]) for i in self.instances}
        fns = set()
        units = set()
        nfun = 0
        for p in self.configs.values():
            units.update(p.units)
            nfun = max(nfun, len(p.fns))
        samples = []
        per = {}
        for i in self.instances:
            per[i["rule"]] = per.get(i["rule"], 0) + 1
            if per[i["rule"]] <= 3 or not i["ok"]:
                samples.append(dict(rule=i["rule"], site=i["site"], instance=i["what"][:400], verdict="holds" if i["ok"] else "VIOLATED"))
        cov = dict(
            explanation=self.explanation,
            obligations=len(self.instances),
            discharged=sum(1 for i in self.instances if i["ok"]),
            evaluations=len(self.instances) + self.cells,
            distinct_nontrivial=len(nontrivial),
            rule="one evaluation = one rule instance (a rule bound to a concrete function/call site/field/table row of /repo, "
                 "decided over all CFG paths or all cells of the input partition); distinct = distinct (rule, site, instance); an "
                 "instance is non-trivial when its anchor was found in the current source and its path/def-use query actually ran "
                 "(vanished anchors abort with exit 2 instead of passing)",
            samples=samples[:90],
            selftest=getattr(self, "selftest", None),
            rules={r: dict(statement=s, instances=sum(1 for i in self.instances if i["rule"] == r),
                           floor=self.floors.get(r, (None, None))[1]) for r, s in self.rules.items()},
            configurations=sorted(self.configs),
            units=sorted(u.replace(self.repo.rstrip("/") + "/", "") for u in units if "miverif_probe" not in u),
            functions_parsed=nfun,
            compdb=next(iter(self.configs.values())).how if self.configs else "",
            abstract_cells=self.cells,
            checker_cmd="/verif/bin/check %s --tier %s" % (self.pid, self.tier),
            trusted_base=self.trusted,
            known_findings=[dict(key=v["key"], what=k.get("what")) for v, k in suppressed],
            notes=self.notes,
            analysis_broken=self.broken,
            exhaustive=False,
        )
        ev = dict(property_id=self.pid, tier=self.tier, seed=int(os.environ.get("VERIF_SEED", "0") or 0), level=self.level,
                  coverage=cov, assumptions=self.assumptions, wall_s=round(time.time() - self.t0, 2), violations=len(reported))
        os.makedirs(EVID_DIR, exist_ok=True)
        tmp = os.path.join(EVID_DIR, ".%s.%d.tmp" % (self.pid, os.getpid()))
        with open(tmp, "w") as f:
            json.dump(ev, f, indent=1)
        os.replace(tmp, os.path.join(EVID_DIR, self.pid + ".json"))
