"""Upper-bound dataflow for index/length variables (DESIGN §2.3 P10b): a forward must-analysis over the CFG.

State: map declaration-id -> integer upper bound (absent = unbounded). Join = pointwise max (absent wins).
Transfer: `v = c`, `v = w`, `v = _mi_strnlen(s, n)` (<= n), `v = atomic/other` (unbounded), `v++`, `v += c`; edge facts
`v < K`, `v <= K`, `v >= K` (false edge) ... with K a folded constant or a bounded variable. Unsigned variables only
(the analysed variables are size_t counters); the analysis never executes anything.
"""
import rl

INF = None


def _ub_expr(fn, e, st):
    """upper bound of expression e in state st (None = unknown)"""
    j = fn.strip(e)
    n = fn.nodes[j]
    c = fn.cv(e)
    if c is not None:
        return c
    k = n["k"]
    if k == "DeclRefExpr":
        return st.get(n["d"])
    if k == "CallExpr" and n.get("callee") == "_mi_strnlen" and len(n["args"]) == 2:
        return _ub_expr(fn, n["args"][1], st)
    if k == "BinaryOperator":
        a, b = n["c"]
        if n["op"] == "+":
            x, y = _ub_expr(fn, a, st), _ub_expr(fn, b, st)
            return None if x is None or y is None else x + y
        if n["op"] == "-":
            x, y = _ub_expr(fn, a, st), fn.cv(b)
            # x - c with c constant: only safe as an upper bound if no wrap-around: require the caller to know x >= c; we
            # only use it for K-1 style bounds on guards, handled separately
            return None
        if n["op"] in ("/", ">>"):
            x, y = _ub_expr(fn, a, st), fn.cv(b)
            if x is not None and y is not None and y > 0:
                return x // y if n["op"] == "/" else x >> y
        if n["op"] == "%":
            y = _ub_expr(fn, b, st)
            return None if y is None else y - 1
        if n["op"] == "&":
            y = fn.cv(b)
            if y is not None:
                return y
    if k == "ConditionalOperator":
        x, y = _ub_expr(fn, n["then"], st), _ub_expr(fn, n["else"], st)
        return None if x is None or y is None else max(x, y)
    return None


def analyse(fn, max_iter=6):
    """returns dict: point -> state (dict d->ub) holding just before the point executes"""
    cfg = fn.cfg
    N = fn.nodes
    states = {cfg.entry: {}}
    work = [cfg.entry]
    visits = {}

    def transfer(e, st):
        n = N[e]
        k = n["k"]
        if k == "DeclStmt":
            st = dict(st)
            for dd in n["decls"]:
                if "init" in dd:
                    ub = _ub_expr(fn, dd["init"], st)
                    if ub is not None:
                        st[dd["d"]] = ub
                    else:
                        st.pop(dd["d"], None)
                else:
                    st.pop(dd["d"], None)
            return st
        if k == "BinaryOperator" and n["op"] == "=":
            d = rl.var_of(fn, n["c"][0])
            if d is not None:
                st = dict(st)
                ub = _ub_expr(fn, n["c"][1], st)
                if ub is not None:
                    st[d] = ub
                else:
                    st.pop(d, None)
            return st
        if k == "CompoundAssignOperator":
            d = rl.var_of(fn, n["c"][0])
            if d is not None:
                st = dict(st)
                c = fn.cv(n["c"][1])
                if n["op"] == "+=" and c is not None and d in st:
                    st[d] = st[d] + c
                elif n["op"] in ("-=", "/=", ">>=", "%=", "&=") and d in st:
                    pass  # unsigned: does not grow (wrap-around of -= is excluded by the guard rules that use it)
                else:
                    st.pop(d, None)
            return st
        if k == "UnaryOperator" and n["op"] in ("post++", "pre++"):
            d = rl.var_of(fn, n["c"][0])
            if d is not None and d in st:
                st = dict(st)
                st[d] = st[d] + 1
            return st
        if k == "UnaryOperator" and n["op"] == "&":
            d = rl.var_of(fn, n["c"][0])
            if d is not None and d in st:
                st = dict(st)
                st.pop(d)
            return st
        return st

    def refine(lab, st):
        out = st
        for e, pol in cfg.facts(lab):
            c = rl.norm_cmp(fn, e, pol)
            if c is None:
                continue
            op, l, r = c
            for (a, b, o) in ((l, r, op), (r, l, rl.SWAP[op])):
                d = rl.var_of(fn, a)
                if d is None:
                    continue
                kb = _ub_expr(fn, b, out)
                if kb is None:
                    continue
                nb = None
                if o == "<":
                    nb = kb - 1
                elif o == "<=" or o == "==":
                    nb = kb
                if nb is not None and (d not in out or out[d] > nb):
                    out = dict(out)
                    out[d] = nb
        return out

    def join(a, b):
        return {d: max(a[d], b[d]) for d in a if d in b}

    while work:
        p = work.pop()
        st = states[p]
        visits[p] = visits.get(p, 0) + 1
        e = cfg.elem_at(p)
        if e is not None:
            st = transfer(e, st)
        for q, lab in cfg.edges.get(p, []):
            ns = refine(lab, st) if lab is not None else st
            if q in states:
                old = states[q]
                new = join(old, ns)
                if visits.get(q, 0) > max_iter and len(cfg.preds.get(q, [])) >= 2:
                    # widen: drop what still changes
                    new = {d: v for d, v in new.items() if old.get(d) == v}
                if new != old:
                    states[q] = new
                    work.append(q)
            else:
                states[q] = dict(ns)
                work.append(q)
    return states


def ub_at(fn, states, node, expr):
    """upper bound of `expr` just before `node` executes"""
    p = fn.cfg.pt(node)
    st = states.get(p)
    if st is None:
        return None, "unreachable"
    return _ub_expr(fn, expr, st), st
