"""Path algorithms over clang's CFG as emitted by mifacts (DESIGN §2.3: P1 must-pass-through, P2 guarded-by)."""
from collections import deque

TERMINATING_CALLS = {"_mi_assert_fail", "abort", "exit", "_exit", "__assert_fail", "__builtin_unreachable", "__builtin_trap"}


class CFG:
    """Program points are (block, k): k < len(elems) = just before element k executes; k == len = block end.
    `edges[pt]` = list of (pt2, label); label is None or (cond_node, branch) with branch True/False (two-way
    terminators) or ('case', value|None) for switch edges."""

    def __init__(self, fn):
        self.fn = fn
        c = fn.d.get("cfg")
        if c is None:
            raise ValueError("no CFG for " + fn.name)
        self.blocks = {b["id"]: b for b in c["blocks"]}
        self.entry = (c["entry"], 0)
        self.exit = (c["exit"], 0)
        self.elem_pt = {}
        for b in c["blocks"]:
            for k, e in enumerate(b["elems"]):
                self.elem_pt.setdefault(e, (b["id"], k))
        self.edges = {}
        self._build()
        self.preds = {}
        for p, outs in self.edges.items():
            for q, lab in outs:
                self.preds.setdefault(q, []).append((p, lab))

    def _build(self):
        fn = self.fn
        N = fn.nodes
        for bid, b in self.blocks.items():
            elems = b["elems"]
            cut = False
            for k, e in enumerate(elems):
                n = N[e]
                if n["k"] == "CallExpr" and n.get("callee") in TERMINATING_CALLS:
                    self.edges[(bid, k)] = []  # element executes, nothing follows
                    cut = True
                    # points after it stay without in-edges
                    for k2 in range(k + 1, len(elems) + 1):
                        self.edges.setdefault((bid, k2), [])
                    break
                self.edges[(bid, k)] = [((bid, k + 1), None)]
            if cut:
                continue
            end = (bid, len(elems))
            outs = []
            succs = b["succs"]
            tk = b.get("tk")
            cond = b.get("cond")
            if b.get("noret"):
                succs = []
            if tk == "SwitchStmt":
                for s in succs:
                    if s < 0:
                        continue
                    lab = self.blocks[s].get("label")
                    val = None
                    if lab is not None and N[lab]["k"] == "CaseStmt":
                        val = N[lab].get("val")
                        if val is not None:
                            val = int(val)
                    elif lab is not None and N[lab]["k"] == "DefaultStmt":
                        val = "default"
                    else:
                        val = "default"  # no default label: the edge leaving the switch
                    outs.append(((s, 0), (cond, ("case", val))))
            elif cond is not None and len(succs) == 2:
                dec = self.decided(cond)
                for s, br in zip(succs, (True, False)):
                    if s >= 0:
                        outs.append(((s, 0), (dec, br)))
            else:
                for s in succs:
                    if s >= 0:
                        outs.append(((s, 0), None))
            self.edges[end] = outs
        self.edges.setdefault(self.exit, [])

    def decided(self, cond):
        """the expression whose truth the terminator actually branches on: for a short-circuit operator that clang lowered
        into control flow this is its rightmost operand; a logical operator nested inside a call argument / `!!`
        (mi_likely, mi_unlikely) is NOT lowered at this terminator and stays a compound condition (see facts())"""
        fn = self.fn
        i = cond
        while True:
            n = fn.nodes[i]
            if n["k"] in ("ParenExpr", "ConstantExpr") or (n["k"] == "ImplicitCastExpr"):
                i = n["c"][0]
                continue
            if n["k"] == "BinaryOperator" and n["op"] in ("&&", "||"):
                i = n["c"][1]
                continue
            return i

    # ---- points
    def pt(self, node):
        """point just before `node` executes (node must be, or be nested in / contain, a CFG element)"""
        if node in self.elem_pt:
            return self.elem_pt[node]
        # an enclosing element
        x = self.fn.parent.get(node)
        while x is not None:
            if self.fn.nodes[x].get("inlined"):
                break       # the value of an inlined call is not where its body executes
            if x in self.elem_pt:
                return self.elem_pt[x]
            x = self.fn.parent.get(x)
        # statement containers: first element inside
        for y in self.fn.walk(node):
            if y in self.elem_pt:
                return self.elem_pt[y]
        return None

    def after(self, node):
        p = self.pt(node)
        if p is None:
            return None
        return (p[0], p[1] + 1)

    def elem_at(self, pt):
        b = self.blocks[pt[0]]
        if pt[1] < len(b["elems"]):
            return b["elems"][pt[1]]
        return None

    def return_points(self):
        """points of ReturnStmt elements plus block ends that fall into the exit block"""
        out = []
        for e, p in self.elem_pt.items():
            if self.fn.nodes[e]["k"] == "ReturnStmt":
                out.append(p)
        return out

    # ---- edge facts
    def fact(self, label):
        """(expr, polarity) with leading `!` folded into the polarity; None for unconditional/switch edges.
        expr may be a compound `a && b` (see decided()); facts() gives the atomic facts it implies."""
        if label is None:
            return None
        cond, br = label[0], label[1]
        if isinstance(br, tuple):
            return None
        fn = self.fn
        i = fn.strip(cond)
        pol = br
        while fn.nodes[i]["k"] == "UnaryOperator" and fn.nodes[i]["op"] == "!":
            i = fn.strip(fn.nodes[i]["c"][0])
            pol = not pol
        return (i, pol)

    def facts(self, label):
        """all (expr, polarity) facts implied by taking the edge: a true conjunction makes every conjunct true, a false
        disjunction makes every disjunct false"""
        f = self.fact(label)
        if f is None:
            return []
        out = []
        fn = self.fn

        def rec(i, pol, depth=0):
            i = fn.strip(i)
            n = fn.nodes[i]
            while n["k"] == "UnaryOperator" and n["op"] == "!":
                i = fn.strip(n["c"][0])
                n = fn.nodes[i]
                pol = not pol
            out.append((i, pol))
            if n["k"] == "BinaryOperator" and ((n["op"] == "&&" and pol) or (n["op"] == "||" and not pol)):
                rec(n["c"][0], pol, depth)
                rec(n["c"][1], pol, depth)
            elif n["k"] == "DeclRefExpr" and n.get("dk") == "local" and depth < 3:
                e = self._bool_def(n["d"], n.get("n", ""))
                if e is not None:
                    rec(e, pol, depth + 1)     # testing a variable that just names a condition is testing that condition
        rec(f[0], f[1])
        if len(label) > 2:
            # augmented by reach(): the tested variable was last assigned the condition label[2] on this path
            for extra in label[2]:
                rec(extra, f[1])
        return out

    def _bool_def(self, d, name):
        """the condition a local stands for: its only definition (initialiser or single assignment), when that cannot have
        gone stale by the time the local is tested — the result variable of an inlined helper, or an expression over
        never-reassigned locals and call results"""
        cache = self.__dict__.setdefault("_booldef", {})
        if d in cache:
            return cache[d]
        cache[d] = None
        fn = self.fn
        N = fn.nodes
        defs = [(a, rhs, op) for a, rhs, op in fn.var_defs(d) if not (op == "decl" and rhs is None)]
        if len(defs) != 1 or defs[0][1] is None or defs[0][2] not in ("=", "decl"):
            return None
        rhs = defs[0][1]
        if fn.cv(rhs) is not None:
            return None
        if not name.startswith("__ret_"):
            self._tracked()
            for x in fn.walk(rhs):
                m = N[x]
                if m["k"] == "MemberExpr" or m["k"] == "ArraySubscriptExpr" or (m["k"] == "UnaryOperator" and m["op"] == "*"):
                    return None
                if m["k"] == "DeclRefExpr" and m.get("dk") in ("local", "parm") and (not self._single_def(m["d"]) or m["d"] in self._addr_taken):
                    return None
        cache[d] = rhs
        return rhs

    # ---- correlated branches: a small amount of path sensitivity, sound by construction (it only removes paths
    # on which the same side-effect-free condition over unmodified locals would have to be both true and false)
    def _tracked(self):
        if hasattr(self, "_trk"):
            return self._trk
        fn = self.fn
        N = fn.nodes
        addr_taken = set()
        for n in N:
            if n["k"] == "UnaryOperator" and n["op"] == "&":
                c = fn.strip(n["c"][0])
                if N[c]["k"] == "DeclRefExpr" and N[c]["dk"] in ("local", "parm"):
                    addr_taken.add(N[c]["d"])

        def pure(i):
            i = fn.strip(i)
            n = N[i]
            k = n["k"]
            if "cv" in n:
                return set()
            if k == "DeclRefExpr":
                if n["dk"] in ("local", "parm"):
                    return None if n["d"] in addr_taken else {fn.alias_root(n["d"])}
                if n["dk"] == "enum":
                    return set()
                return None
            if k in ("IntegerLiteral", "CharacterLiteral"):
                return set()
            if "cv" in n:
                return set()
            if k == "UnaryOperator" and n["op"] == "&":
                c = fn.strip(n["c"][0])
                if N[c]["k"] == "DeclRefExpr" and N[c]["dk"] == "global":
                    return set()
                return None
            if k == "UnaryOperator" and n["op"] in ("!", "-", "~"):
                return pure(n["c"][0])
            if k == "BinaryOperator" and n["op"] in ("==", "!=", "<", "<=", ">", ">=", "+", "-", "*", "&", "|"):
                a, b = pure(n["c"][0]), pure(n["c"][1])
                if a is None or b is None:
                    return None
                return a | b
            return None
        keys = {}
        count = {}
        for p, outs in self.edges.items():
            for q, lab in outs:
                f = self.fact(lab)
                if f is None:
                    continue
                vs = pure(f[0])
                if not vs:
                    continue
                key, flip = self._ckey(f[0])
                keys[f[0]] = (key, frozenset(vs), flip)
                count.setdefault(key, set()).add(f[0])
        self._trk = {e: kv for e, kv in keys.items() if len(count[kv[0]]) >= 2}
        self._addr_taken = addr_taken
        # definitions: element -> set of decl ids written
        self._defs = {}
        for n in N:
            k = n["k"]
            ds = set()
            if k in ("BinaryOperator", "CompoundAssignOperator") and (n["op"] == "=" or k == "CompoundAssignOperator"):
                c = fn.strip(n["c"][0])
                if N[c]["k"] == "DeclRefExpr":
                    ds.add(N[c]["d"])
            elif k == "UnaryOperator" and n["op"] in ("post++", "post--", "pre++", "pre--"):
                c = fn.strip(n["c"][0])
                if N[c]["k"] == "DeclRefExpr":
                    ds.add(N[c]["d"])
            elif k == "DeclStmt":
                ds.update(dd["d"] for dd in n["decls"])
            if ds:
                self._defs[n["i"]] = ds
        # constant assignments to plain locals (flags, result variables, parameters bound to literals by the inliner):
        # element -> [(decl, constant)]
        self._cassign = {}
        for n in N:
            k = n["k"]
            if k == "BinaryOperator" and n["op"] == "=":
                c = fn.strip(n["c"][0])
                v = fn.cv(n["c"][1])
                if N[c]["k"] == "DeclRefExpr" and N[c].get("dk") in ("local", "parm") and N[c]["d"] not in addr_taken and v is not None:
                    self._cassign[n["i"]] = [(N[c]["d"], v)]
            elif k == "DeclStmt":
                lst = [(dd["d"], fn.cv(dd["init"])) for dd in n["decls"] if "init" in dd and fn.cv(dd["init"]) is not None and dd["d"] not in addr_taken and not dd.get("static")]
                if lst:
                    self._cassign[n["i"]] = lst
        # the right-hand side a plain local was last assigned on this path (result variables): element -> [(decl, rhs node)]
        self._lastdef = {}
        for n in N:
            k = n["k"]
            if k == "BinaryOperator" and n["op"] == "=":
                c = fn.strip(n["c"][0])
                if N[c]["k"] == "DeclRefExpr" and N[c].get("dk") in ("local", "parm") and N[c]["d"] not in addr_taken and fn.cv(n["c"][1]) is None:
                    self._lastdef[n["i"]] = [(N[c]["d"], n["c"][1])]
            elif k == "DeclStmt":
                lst = [(dd["d"], dd["init"]) for dd in n["decls"] if "init" in dd and fn.cv(dd["init"]) is None and dd["d"] not in addr_taken and not dd.get("static")]
                if lst:
                    self._lastdef[n["i"]] = lst
        # plain copies `x = y` / `T x = y` between such locals carry the constant along
        self._copyassign = {}
        def plain(i):
            j = fn.strip(i)
            m = N[j]
            return m["d"] if m["k"] == "DeclRefExpr" and m.get("dk") in ("local", "parm") and m["d"] not in addr_taken else None
        for n in N:
            k = n["k"]
            if k == "BinaryOperator" and n["op"] == "=" and n["i"] not in self._cassign:
                a, b = plain(n["c"][0]), plain(n["c"][1])
                if a is not None and b is not None and fn.cv(n["c"][1]) is None:
                    self._copyassign[n["i"]] = [(a, b)]
            elif k == "DeclStmt":
                lst = [(dd["d"], plain(dd["init"])) for dd in n["decls"] if "init" in dd and fn.cv(dd["init"]) is None and plain(dd["init"]) is not None and dd["d"] not in addr_taken]
                if lst:
                    self._copyassign[n["i"]] = lst
        return self._trk

    def _contradicts(self, consts, e, pol):
        """does the truth value `pol` of condition e contradict the constants known for plain locals on this path?"""
        fn = self.fn
        N = fn.nodes
        j = fn.strip(e)
        n = N[j]

        def val(x):
            x = fn.strip(x)
            if fn.cv(x) is not None:
                return fn.cv(x)
            m = N[x]
            if m["k"] == "DeclRefExpr" and m.get("d") in consts:
                return consts[m["d"]]
            return None
        if n["k"] == "DeclRefExpr":
            v = val(j)
            return v is not None and (v != 0) != pol
        if n["k"] == "BinaryOperator" and n["op"] in ("==", "!=", "<", "<=", ">", ">="):
            a, b = val(n["c"][0]), val(n["c"][1])
            if a is None or b is None:
                return False
            r = {"==": a == b, "!=": a != b, "<": a < b, "<=": a <= b, ">": a > b, ">=": a >= b}[n["op"]]
            return r != pol
        return False

    def _ckey(self, e):
        """spelling-independent identity of a condition: (key, flip) such that two conditions with the same key are
        the same test (flip equal) or each other's negation (flip different): `a != b`, `b == a`, `!(a == b)`;
        `a < b`, `b > a`, `!(a >= b)`"""
        fn = self.fn
        i = fn.strip(e)
        n = fn.nodes[i]
        flip = False
        while n["k"] == "UnaryOperator" and n["op"] == "!":
            i = fn.strip(n["c"][0])
            n = fn.nodes[i]
            flip = not flip
        if n["k"] == "BinaryOperator" and n["op"] in ("==", "!=", "<", "<=", ">", ">="):
            a, b, op = self._ktext(n["c"][0]), self._ktext(n["c"][1]), n["op"]
            if op in ("==", "!="):
                if b < a:
                    a, b = b, a
                return "%s == %s" % (a, b), flip != (op == "!=")
            if op in (">", ">="):
                a, b, op = b, a, {">": "<", ">=": "<="}[op]
            if op == "<=":      # a <= b  is  !(b < a)
                a, b, flip = b, a, not flip
            return "%s < %s" % (a, b), flip
        return self._ktext(i), flip

    def _ktext(self, i):
        """text of a condition operand in which a local is identified by its alias root, not by its name (so that the
        result variable of an inlined helper and the helper's own local are the same thing)"""
        fn = self.fn
        i = fn.strip(i)
        n = fn.nodes[i]
        k = n["k"]
        if k == "DeclRefExpr" and n.get("dk") in ("local", "parm"):
            return "v%d" % fn.alias_root(n["d"])
        if k in ("BinaryOperator",) and len(n["c"]) == 2:
            return "(%s %s %s)" % (self._ktext(n["c"][0]), n["op"], self._ktext(n["c"][1]))
        if k == "UnaryOperator" and n["c"]:
            return n["op"] + self._ktext(n["c"][0])
        if k == "MemberExpr" and n["c"]:
            return self._ktext(n["c"][0]) + ("->" if n["arrow"] else ".") + n["fld"]
        return fn.text(i)

    def facts_at(self, pt):
        """tracked facts that hold on every path from the entry to `pt` (their variables are never re-assigned)"""
        if not hasattr(self, "_facts_at"):
            self._facts_at = {}
        if pt in self._facts_at:
            return self._facts_at[pt]
        self._facts_at[pt] = frozenset()   # re-entrancy guard
        trk = self._tracked()
        assigned = set()
        for ds in self._defs.values():
            assigned |= ds
        params = set(self.fn.pids)
        out = set()
        cands = {}
        for e, (key, vs, flip) in trk.items():
            # declared-once locals are "assigned" by their DeclStmt; allow those defined exactly once
            if all(self._single_def(v) for v in vs):
                cands[key] = vs
        for key, vs in cands.items():
            for pol in (True, False):
                def edge_ok(lab, p, q, key=key, pol=pol):
                    fa = self.fact(lab)
                    if fa is None or fa[0] not in trk:
                        return True
                    return not (trk[fa[0]][0] == key and (fa[1] != trk[fa[0]][2]) == pol)
                if pt not in self.reach([self.entry], edge_ok=edge_ok):
                    out.add((key, pol, vs))
        self._facts_at[pt] = frozenset(out)
        return self._facts_at[pt]

    def _single_def(self, d):
        if not hasattr(self, "_ndefs"):
            self._ndefs = {}
            for e, ds in self._defs.items():
                for x in ds:
                    self._ndefs[x] = self._ndefs.get(x, 0) + 1
        n = self._ndefs.get(d, 0)
        return n == 0 if d in self.fn.pids else n <= 1

    def reach(self, starts, avoid=None, edge_ok=None, want_prev=False, init_facts=(), want_states=False):
        """points reachable from `starts` (each start is included) without executing an element for which
        avoid(node) holds and only along edges for which edge_ok(label, src, dst) holds. Paths that need a tracked
        condition (see _tracked) to be both true and false are not followed."""
        trk = self._tracked()
        defs = self._defs
        seen_pts = set()
        seen = set()
        prev = {}
        states = {}
        dq = deque()
        for s in starts:
            f0 = frozenset(init_facts) if init_facts else (self.facts_at(s) if trk and s != self.entry else frozenset())
            if not init_facts and s != self.entry and self._cassign and not getattr(self, "_in_entry_states", False):
                # constants of plain locals that hold on every path from the entry to this start
                if not hasattr(self, "_entry_states"):
                    self._in_entry_states = True
                    try:
                        self._entry_states = self.reach([self.entry], want_states=True)[1]
                    finally:
                        self._in_entry_states = False
                sts = self._entry_states.get(s, [])
                if sts:
                    common = dict(sts[0])
                    for st_ in sts[1:]:
                        common = {k_: v_ for k_, v_ in common.items() if st_.get(k_) == v_}
                    f0 = f0 | {(("const", d_), c_, frozenset((d_,))) for d_, c_ in common.items()}
            st = (s, f0)
            if st not in seen:
                seen.add(st)
                if s not in seen_pts:
                    seen_pts.add(s)
                    prev[s] = None
                dq.append(st)
        while dq:
            p, facts = dq.popleft()
            e = self.elem_at(p)
            if e is not None and avoid is not None:
                if getattr(avoid, "wants_state", False):
                    if avoid(e, {x[0][1]: x[1] for x in facts if isinstance(x[0], tuple) and x[0][0] == "const"}):
                        continue
                elif avoid(e):
                    continue
            copied = []
            if e is not None and e in self._copyassign and facts:
                cur = {x[0][1]: x[1] for x in facts if isinstance(x[0], tuple) and x[0][0] == "const"}
                copied = [(d_, cur[s_]) for d_, s_ in self._copyassign[e] if s_ in cur]
            if e is not None and facts and e in defs:
                ds = defs[e]
                facts = frozenset(x for x in facts if not (x[2] & ds))
            if copied:
                facts = facts | {(("const", d_), c_, frozenset((d_,))) for d_, c_ in copied}
            if e is not None and e in self._cassign:
                facts = facts | {(("const", d_), c_, frozenset((d_,))) for d_, c_ in self._cassign[e]}
            if e is not None and e in self._lastdef:
                facts = facts | {(("def", d_), r_, frozenset((d_,))) for d_, r_ in self._lastdef[e]}
            consts = {x[0][1]: x[1] for x in facts if isinstance(x[0], tuple) and x[0][0] == "const"} if facts else {}
            if want_states:
                st_ = dict(consts)
                for x in facts:
                    if isinstance(x[0], tuple) and x[0][0] == "def":
                        st_[("def", x[0][1])] = x[1]
                states.setdefault(p, []).append(st_)
            lastdefs = {x[0][1]: x[1] for x in facts if isinstance(x[0], tuple) and x[0][0] == "def"} if facts else {}
            for q, lab in self.edges.get(p, []):
                if lab is not None and lastdefs and not isinstance(lab[1], tuple):
                    fa0 = self.fact(lab)
                    if fa0 is not None:
                        m0 = self.fn.nodes[fa0[0]]
                        if m0["k"] == "DeclRefExpr" and m0.get("d") in lastdefs and self._bool_def(m0["d"], m0.get("n", "")) is None:
                            lab = (lab[0], lab[1], (lastdefs[m0["d"]],))
                if edge_ok is not None and not edge_ok(lab, p, q):
                    continue
                if consts and lab is not None and any(isinstance(e2, int) and self._contradicts(consts, e2, pol2) for e2, pol2 in self.facts(lab)):
                    continue
                nf = facts
                if lab is not None and trk:
                    fa = self.fact(lab)
                    if fa is not None and fa[0] in trk:
                        key, vs, flip = trk[fa[0]]
                        val = fa[1] != flip
                        if (key, not val, vs) in facts:
                            continue
                        nf = facts | {(key, val, vs)}
                st = (q, nf)
                if st in seen:
                    continue
                seen.add(st)
                if q not in seen_pts:
                    seen_pts.add(q)
                    prev[q] = p
                dq.append(st)
        if want_states:
            return seen_pts, states
        return (seen_pts, prev) if want_prev else seen_pts

    def const_values(self, starts, node, d, edge_ok=None):
        """the values the plain local d may hold when `node` executes on a path from `starts`: a set of ints, with None in
        it when some path leaves the value unknown (flags and result variables assigned constants are followed per path)"""
        pts, states = self.reach(starts, edge_ok=edge_ok, want_states=True)
        p = self.pt(node)
        return {st.get(d) for st in states.get(p, [])} if p in states else set()

    def witness(self, prev, goal):
        """list of distinct source lines along the BFS path ending at `goal`"""
        pts = []
        x = goal
        while x is not None:
            pts.append(x)
            x = prev.get(x)
        pts.reverse()
        lines = []
        for p in pts:
            e = self.elem_at(p)
            if e is None:
                continue
            ln = self.fn.nodes[e].get("ln")
            if ln is not None and (not lines or lines[-1] != ln):
                lines.append(ln)
        return lines

    def must_pass(self, starts, goals, through, edge_ok=None):
        """None if every path from `starts` to a goal point executes an element with through(node);
        otherwise a witness (list of lines). goals: iterable of points or predicate on points"""
        seen, prev = self.reach(starts, avoid=through, edge_ok=edge_ok, want_prev=True)
        if callable(goals):
            hit = [p for p in seen if goals(p)]
        else:
            hit = [g for g in goals if g in seen]
        # a goal that is itself a `through` element was reached *before* executing it: still counts as reached
        if hit:
            g = sorted(hit)[0]
            return self.witness(prev, g)
        return None

    def guarded(self, target, fact_ok, starts=None, avoid=None):
        """None if every path from entry (or starts) to `target` crosses an edge whose fact satisfies
        fact_ok(expr, polarity); otherwise a witness path"""
        def edge_ok(lab, p, q):
            fs = self.facts(lab)
            if not fs:
                if lab is not None and isinstance(lab[1], tuple):
                    return not fact_ok(("switch", lab[0]), lab[1][1])
                return True
            return not any(fact_ok(e, pol) for e, pol in fs)
        seen, prev = self.reach(starts or [self.entry], avoid=avoid, edge_ok=edge_ok, want_prev=True)
        if target in seen:
            return self.witness(prev, target)
        return None

    def reaches(self, a, b, avoid=None, edge_ok=None):
        return b in self.reach([a], avoid=avoid, edge_ok=edge_ok)

    def exit_points(self):
        """all points from which the function leaves: return statements and the exit block"""
        return self.return_points() + [self.exit]

    def in_loop(self, node):
        p = self.pt(node)
        if p is None:
            return False
        a = self.after(node)
        return p in self.reach([a])
