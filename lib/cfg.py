"""Path algorithms over clang's CFG as emitted by mifacts (DESIGN §2.3: P1 must-pass-through, P2 guarded-by)."""
from collections import deque

TERMINATING_CALLS = {"_mi_assert_fail", "abort", "exit", "_exit", "__assert_fail", "__builtin_unreachable", "__builtin_trap"}


class CFG:
    """Program points are (block, k): k < len(elems) = just before element k executes; k == len = block end.
    `edges[pt]` = list of (pt2, label); label is None or (cond_node, branch) with branch True/False (two-way
    terminators) or ('case', value|None) for switch edges."""

    def __init__(self, fn):
        self.fn = fn
        c = fn.d.get("cfg")
        if c is None:
            raise ValueError("no CFG for " + fn.name)
        self.blocks = {b["id"]: b for b in c["blocks"]}
        self.entry = (c["entry"], 0)
        self.exit = (c["exit"], 0)
        self.elem_pt = {}
        for b in c["blocks"]:
            for k, e in enumerate(b["elems"]):
                self.elem_pt.setdefault(e, (b["id"], k))
        self.edges = {}
        self._build()
        self.preds = {}
        for p, outs in self.edges.items():
            for q, lab in outs:
                self.preds.setdefault(q, []).append((p, lab))

    def _build(self):
        fn = self.fn
        N = fn.nodes
        for bid, b in self.blocks.items():
            elems = b["elems"]
            cut = False
            for k, e in enumerate(elems):
                n = N[e]
                if n["k"] == "CallExpr" and n.get("callee") in TERMINATING_CALLS:
                    self.edges[(bid, k)] = []  # element executes, nothing follows
                    cut = True
                    # points after it stay without in-edges
                    for k2 in range(k + 1, len(elems) + 1):
                        self.edges.setdefault((bid, k2), [])
                    break
                self.edges[(bid, k)] = [((bid, k + 1), None)]
            if cut:
                continue
            end = (bid, len(elems))
            outs = []
            succs = b["succs"]
            tk = b.get("tk")
            cond = b.get("cond")
            if b.get("noret"):
                succs = []
            if tk == "SwitchStmt":
                for s in succs:
                    if s < 0:
                        continue
                    lab = self.blocks[s].get("label")
                    val = None
                    if lab is not None and N[lab]["k"] == "CaseStmt":
                        val = N[lab].get("val")
                        if val is not None:
                            val = int(val)
                    elif lab is not None and N[lab]["k"] == "DefaultStmt":
                        val = "default"
                    else:
                        val = "default"  # no default label: the edge leaving the switch
                    outs.append(((s, 0), (cond, ("case", val))))
            elif cond is not None and len(succs) == 2:
                dec = self.decided(cond)
                for s, br in zip(succs, (True, False)):
                    if s >= 0:
                        outs.append(((s, 0), (dec, br)))
            else:
                for s in succs:
                    if s >= 0:
                        outs.append(((s, 0), None))
            self.edges[end] = outs
        self.edges.setdefault(self.exit, [])

    def decided(self, cond):
        """the leaf expression whose truth the terminator actually branches on (rightmost operand of && / ||)"""
        fn = self.fn
        i = cond
        while True:
            j = fn.strip(i)
            n = fn.nodes[j]
            if n["k"] == "BinaryOperator" and n["op"] in ("&&", "||"):
                i = n["c"][1]
                continue
            return i

    # ---- points
    def pt(self, node):
        """point just before `node` executes (node must be, or be nested in / contain, a CFG element)"""
        if node in self.elem_pt:
            return self.elem_pt[node]
        # an enclosing element
        x = self.fn.parent.get(node)
        while x is not None:
            if x in self.elem_pt:
                return self.elem_pt[x]
            x = self.fn.parent.get(x)
        # statement containers: first element inside
        for y in self.fn.walk(node):
            if y in self.elem_pt:
                return self.elem_pt[y]
        return None

    def after(self, node):
        p = self.pt(node)
        if p is None:
            return None
        return (p[0], p[1] + 1)

    def elem_at(self, pt):
        b = self.blocks[pt[0]]
        if pt[1] < len(b["elems"]):
            return b["elems"][pt[1]]
        return None

    def return_points(self):
        """points of ReturnStmt elements plus block ends that fall into the exit block"""
        out = []
        for e, p in self.elem_pt.items():
            if self.fn.nodes[e]["k"] == "ReturnStmt":
                out.append(p)
        return out

    # ---- edge facts
    def fact(self, label):
        """(expr, polarity) with leading `!` folded into the polarity; None for unconditional/switch edges"""
        if label is None:
            return None
        cond, br = label
        if isinstance(br, tuple):
            return None
        fn = self.fn
        i = fn.strip(cond)
        pol = br
        while fn.nodes[i]["k"] == "UnaryOperator" and fn.nodes[i]["op"] == "!":
            i = fn.strip(fn.nodes[i]["c"][0])
            pol = not pol
        return (i, pol)

    # ---- reachability
    def reach(self, starts, avoid=None, edge_ok=None, want_prev=False):
        """points reachable from `starts` (each start is included) without executing an element for which
        avoid(node) holds and only along edges for which edge_ok(label, src, dst) holds"""
        seen = set()
        prev = {}
        dq = deque()
        for s in starts:
            if s not in seen:
                seen.add(s)
                prev[s] = None
                dq.append(s)
        while dq:
            p = dq.popleft()
            e = self.elem_at(p)
            if e is not None and avoid is not None and avoid(e):
                continue
            for q, lab in self.edges.get(p, []):
                if q in seen:
                    continue
                if edge_ok is not None and not edge_ok(lab, p, q):
                    continue
                seen.add(q)
                prev[q] = p
                dq.append(q)
        return (seen, prev) if want_prev else seen

    def witness(self, prev, goal):
        """list of distinct source lines along the BFS path ending at `goal`"""
        pts = []
        x = goal
        while x is not None:
            pts.append(x)
            x = prev.get(x)
        pts.reverse()
        lines = []
        for p in pts:
            e = self.elem_at(p)
            if e is None:
                continue
            ln = self.fn.nodes[e].get("ln")
            if ln is not None and (not lines or lines[-1] != ln):
                lines.append(ln)
        return lines

    def must_pass(self, starts, goals, through, edge_ok=None):
        """None if every path from `starts` to a goal point executes an element with through(node);
        otherwise a witness (list of lines). goals: iterable of points or predicate on points"""
        seen, prev = self.reach(starts, avoid=through, edge_ok=edge_ok, want_prev=True)
        if callable(goals):
            hit = [p for p in seen if goals(p)]
        else:
            hit = [g for g in goals if g in seen]
        # a goal that is itself a `through` element was reached *before* executing it: still counts as reached
        if hit:
            g = sorted(hit)[0]
            return self.witness(prev, g)
        return None

    def guarded(self, target, fact_ok, starts=None, avoid=None):
        """None if every path from entry (or starts) to `target` crosses an edge whose fact satisfies
        fact_ok(expr, polarity); otherwise a witness path"""
        def edge_ok(lab, p, q):
            f = self.fact(lab)
            if f is None:
                if lab is not None and isinstance(lab[1], tuple):
                    return not fact_ok(("switch", lab[0]), lab[1][1])
                return True
            return not fact_ok(f[0], f[1])
        seen, prev = self.reach(starts or [self.entry], avoid=avoid, edge_ok=edge_ok, want_prev=True)
        if target in seen:
            return self.witness(prev, target)
        return None

    def reaches(self, a, b, avoid=None, edge_ok=None):
        return b in self.reach([a], avoid=avoid, edge_ok=edge_ok)

    def exit_points(self):
        """all points from which the function leaves: return statements and the exit block"""
        return self.return_points() + [self.exit]

    def in_loop(self, node):
        p = self.pt(node)
        if p is None:
            return False
        a = self.after(node)
        return p in self.reach([a])
