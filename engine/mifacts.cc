// mifacts — fact extractor for the mimalloc static-analysis rules (/verif/DESIGN.md §2.2, Appendix A)
//
// usage: mifacts <out.json> <root-prefix> <file.c>... -- <compiler flags>
//
// For every function *defined* in a file below <root-prefix> it emits the complete statement /
// expression tree (typed, with resolved callees, declaration ids, folded constants) and clang's
// CFG (BuildOptions::setAllAlwaysAdd, no EH edges) whose elements refer to the tree nodes.
// Also: enumerators, evaluated global initialisers, record layouts, alias declarations and the
// prototypes of every declared function. Nothing is executed; clang's constant folder is the only
// evaluator used (EvaluateAsInt / evaluateValue).
#include "clang/AST/ASTConsumer.h"
#include "clang/AST/ASTContext.h"
#include "clang/AST/Attr.h"
#include "clang/AST/Decl.h"
#include "clang/AST/Expr.h"
#include "clang/AST/RecordLayout.h"
#include "clang/AST/Stmt.h"
#include "clang/Analysis/CFG.h"
#include "clang/Basic/SourceManager.h"
#include "clang/Frontend/CompilerInstance.h"
#include "clang/Frontend/FrontendAction.h"
#include "clang/Tooling/CompilationDatabase.h"
#include "clang/Tooling/Tooling.h"
#include "llvm/Support/JSON.h"
#include "llvm/Support/raw_ostream.h"
#include <map>
#include <set>
#include <string>
#include <vector>

using namespace clang;
namespace json = llvm::json;

static std::string gRoot;
static std::set<std::string> gSeenFn;      // file:line:name of functions already emitted
static std::set<std::string> gSeenGlobal;
static std::set<std::string> gSeenRecord;
static std::set<std::string> gSeenAlias;
static std::set<std::string> gSeenProto;
static json::OStream *gJ = nullptr;

// The sections are buffered per kind because several translation units contribute to each.
static std::vector<std::string> gFunctions, gGlobals, gRecords, gAliases, gProtos;
static std::map<std::string, std::string> gEnums;
static std::vector<std::string> gUnits;
static bool gHadError = false;

static void intAttr(json::OStream &J, llvm::StringRef key, const llvm::APSInt &v) {
  if (v.isSigned() ? v.isSignedIntN(63) : v.isIntN(62)) J.attribute(key, (int64_t)v.getExtValue());
  else J.attribute(key, llvm::toString(v, 10));
}

struct FnEmitter {
  ASTContext &Ctx;
  const SourceManager &SM;
  std::map<const Stmt *, int> ids;
  std::vector<const Stmt *> order;
  std::map<const Decl *, int> &declIds;
  std::string fnFile;

  FnEmitter(ASTContext &C, std::map<const Decl *, int> &D) : Ctx(C), SM(C.getSourceManager()), declIds(D) {}

  int declId(const Decl *d) {
    d = d->getCanonicalDecl();
    auto it = declIds.find(d);
    if (it != declIds.end()) return it->second;
    int id = (int)declIds.size() + 1;
    declIds[d] = id;
    return id;
  }

  void number(const Stmt *s) {
    if (!s || ids.count(s)) return;
    ids[s] = (int)order.size();
    order.push_back(s);
    for (const Stmt *c : s->children()) number(c);
  }

  int id(const Stmt *s) {
    if (!s) return -1;
    auto it = ids.find(s);
    if (it != ids.end()) return it->second;
    number(s);  // synthesized statement (e.g. split DeclStmt)
    return ids[s];
  }

  static int typeWidth(ASTContext &Ctx, QualType t) {
    if (t.isNull()) return 0;
    t = t.getCanonicalType();
    if (t->isBooleanType()) return 1;
    if (t->isPointerType()) return 64;
    if (const auto *at = t->getAs<AtomicType>()) return typeWidth(Ctx, at->getValueType());
    if (t->isIntegralOrEnumerationType()) {
      int w = (int)Ctx.getTypeSize(t);
      return t->isSignedIntegerOrEnumerationType() ? -w : w;
    }
    return 0;
  }

  static const char *atomicOpName(AtomicExpr::AtomicOp op) {
    switch (op) {
    case AtomicExpr::AO__c11_atomic_load: case AtomicExpr::AO__atomic_load_n: case AtomicExpr::AO__atomic_load: return "load";
    case AtomicExpr::AO__c11_atomic_store: case AtomicExpr::AO__atomic_store_n: case AtomicExpr::AO__atomic_store: return "store";
    case AtomicExpr::AO__c11_atomic_init: return "init";
    case AtomicExpr::AO__c11_atomic_exchange: case AtomicExpr::AO__atomic_exchange_n: case AtomicExpr::AO__atomic_exchange: return "exchange";
    case AtomicExpr::AO__c11_atomic_compare_exchange_strong: return "cas_strong";
    case AtomicExpr::AO__c11_atomic_compare_exchange_weak: return "cas_weak";
    case AtomicExpr::AO__atomic_compare_exchange: case AtomicExpr::AO__atomic_compare_exchange_n: return "cas_gnu";
    case AtomicExpr::AO__c11_atomic_fetch_add: case AtomicExpr::AO__atomic_fetch_add: return "fetch_add";
    case AtomicExpr::AO__c11_atomic_fetch_sub: case AtomicExpr::AO__atomic_fetch_sub: return "fetch_sub";
    case AtomicExpr::AO__c11_atomic_fetch_and: case AtomicExpr::AO__atomic_fetch_and: return "fetch_and";
    case AtomicExpr::AO__c11_atomic_fetch_or: case AtomicExpr::AO__atomic_fetch_or: return "fetch_or";
    case AtomicExpr::AO__c11_atomic_fetch_xor: case AtomicExpr::AO__atomic_fetch_xor: return "fetch_xor";
    default: return "other";
    }
  }

  void loc(json::OStream &J, SourceLocation L) {
    SourceLocation E = SM.getExpansionLoc(L);
    PresumedLoc P = SM.getPresumedLoc(E);
    if (P.isInvalid()) return;
    J.attribute("ln", (int64_t)P.getLine());
    J.attribute("col", (int64_t)P.getColumn());
    if (fnFile != P.getFilename()) J.attribute("file", P.getFilename());
    if (L.isMacroID()) {
      // name of the outermost macro whose expansion produced this node
      SourceLocation cur = L;
      while (cur.isMacroID()) {
        SourceLocation up = SM.getImmediateMacroCallerLoc(cur);
        if (!up.isMacroID()) break;
        cur = up;
      }
      StringRef nm = Lexer::getImmediateMacroName(cur, SM, Ctx.getLangOpts());
      if (!nm.empty()) J.attribute("macro", nm);
    }
  }

  void emitNode(json::OStream &J, const Stmt *s) {
    J.object([&] {
      J.attribute("k", s->getStmtClassName());
      loc(J, s->getBeginLoc());
      if (s->getBeginLoc().isMacroID() && s->getEndLoc().isMacroID() &&
          SM.getExpansionLoc(s->getBeginLoc()) == SM.getExpansionLoc(s->getEndLoc()) &&
          Lexer::isAtStartOfMacroExpansion(s->getBeginLoc(), SM, Ctx.getLangOpts()) &&
          Lexer::isAtEndOfMacroExpansion(s->getEndLoc(), SM, Ctx.getLangOpts()))
        J.attribute("mfull", true);
      {
        // file character range of the node when it is written out in one piece (also inside a macro argument): used by the
        // behaviour-preserving rewriter (bin/benign-fuzz), never by a rule
        CharSourceRange R = Lexer::makeFileCharRange(CharSourceRange::getTokenRange(s->getSourceRange()), SM, Ctx.getLangOpts());
        if (R.isValid() && SM.isWrittenInSameFile(R.getBegin(), R.getEnd())) {
          J.attribute("bo", (int64_t)SM.getFileOffset(R.getBegin()));
          J.attribute("eo", (int64_t)SM.getFileOffset(R.getEnd()));
          PresumedLoc P = SM.getPresumedLoc(R.getBegin());
          if (P.isValid() && fnFile != P.getFilename()) J.attribute("rf", P.getFilename());
        }
      }
      J.attributeArray("c", [&] {
        for (const Stmt *c : s->children()) J.value(c ? (int64_t)id(c) : (int64_t)-1);
      });
      if (const auto *e = dyn_cast<Expr>(s)) {
        QualType t = e->getType();
        J.attribute("t", t.getAsString());
        int w = typeWidth(Ctx, t);
        if (w) J.attribute("w", (int64_t)w);
        if (e->isLValue()) J.attribute("lv", true);
        if (!isa<IntegerLiteral>(e) && !isa<InitListExpr>(e) && !e->getType()->isVoidType() &&
            e->getType()->isIntegralOrEnumerationType() && e->isPRValue()) {
          Expr::EvalResult R;
          if (e->EvaluateAsInt(R, Ctx, Expr::SE_NoSideEffects)) intAttr(J, "cv", R.Val.getInt());
        } else if (e->getType()->isPointerType() && e->isPRValue() &&
                   e->isNullPointerConstant(Ctx, Expr::NPC_ValueDependentIsNotNull)) {
          J.attribute("cv", 0);
        }
      }
      if (const auto *x = dyn_cast<DeclRefExpr>(s)) {
        const ValueDecl *d = x->getDecl();
        J.attribute("n", d->getNameAsString());
        J.attribute("d", (int64_t)declId(d));
        if (isa<ParmVarDecl>(d)) J.attribute("dk", "parm");
        else if (const auto *vd = dyn_cast<VarDecl>(d)) J.attribute("dk", vd->hasGlobalStorage() ? (vd->isLocalVarDecl() ? "slocal" : "global") : "local");
        else if (isa<FunctionDecl>(d)) J.attribute("dk", "fn");
        else if (isa<EnumConstantDecl>(d)) J.attribute("dk", "enum");
        else J.attribute("dk", "other");
      } else if (const auto *x = dyn_cast<MemberExpr>(s)) {
        J.attribute("fld", x->getMemberDecl()->getNameAsString());
        if (const auto *fd = dyn_cast<FieldDecl>(x->getMemberDecl())) {
          const RecordDecl *rd = fd->getParent();
          std::string rn = rd->getNameAsString();
          if (rn.empty()) if (const auto *td = rd->getTypedefNameForAnonDecl()) rn = td->getNameAsString();
          J.attribute("rec", rn);
        }
        J.attribute("arrow", x->isArrow());
      } else if (const auto *x = dyn_cast<CallExpr>(s)) {
        if (const FunctionDecl *fd = x->getDirectCallee()) {
          J.attribute("callee", fd->getNameAsString());
          if (fd->getBuiltinID()) J.attribute("builtin", true);
        }
        J.attribute("fn", (int64_t)id(x->getCallee()));
        J.attributeArray("args", [&] { for (const Expr *a : x->arguments()) J.value((int64_t)id(a)); });
      } else if (const auto *x = dyn_cast<IntegerLiteral>(s)) {
        llvm::APSInt v(x->getValue(), !x->getType()->isSignedIntegerType());
        intAttr(J, "v", v);
        intAttr(J, "cv", v);
      } else if (const auto *x = dyn_cast<CharacterLiteral>(s)) {
        J.attribute("v", (int64_t)x->getValue());
      } else if (const auto *x = dyn_cast<StringLiteral>(s)) {
        if (x->getCharByteWidth() == 1) J.attribute("s", x->getBytes());
      } else if (const auto *x = dyn_cast<CompoundAssignOperator>(s)) {
        J.attribute("op", x->getOpcodeStr());
      } else if (const auto *x = dyn_cast<BinaryOperator>(s)) {
        J.attribute("op", x->getOpcodeStr());
      } else if (const auto *x = dyn_cast<UnaryOperator>(s)) {
        std::string op = UnaryOperator::getOpcodeStr(x->getOpcode()).str();
        if (x->isPostfix()) op = "post" + op;
        else if (x->isIncrementDecrementOp()) op = "pre" + op;
        J.attribute("op", op);
      } else if (const auto *x = dyn_cast<CastExpr>(s)) {
        J.attribute("ck", x->getCastKindName());
        if (isa<ImplicitCastExpr>(x)) J.attribute("imp", true);
      } else if (const auto *x = dyn_cast<UnaryExprOrTypeTraitExpr>(s)) {
        J.attribute("tt", x->getKind() == UETT_SizeOf ? "sizeof" : "other");
        if (x->isArgumentType()) J.attribute("argt", x->getArgumentType().getAsString());
      } else if (const auto *x = dyn_cast<AtomicExpr>(s)) {
        J.attribute("aop", atomicOpName(x->getOp()));
        J.attribute("ptr", (int64_t)id(x->getPtr()));
        J.attribute("order", (int64_t)id(x->getOrder()));
        Expr::EvalResult R;
        if (x->getOrder()->EvaluateAsInt(R, Ctx)) J.attribute("ord", (int64_t)R.Val.getInt().getExtValue());
        unsigned n = x->getNumSubExprs();
        if (x->getOp() != AtomicExpr::AO__c11_atomic_load && x->getOp() != AtomicExpr::AO__atomic_load_n && n >= 3)
          J.attribute("val1", (int64_t)id(x->getVal1()));
        if (x->isCmpXChg()) {
          J.attribute("order_fail", (int64_t)id(x->getOrderFail()));
          Expr::EvalResult R2;
          if (x->getOrderFail()->EvaluateAsInt(R2, Ctx)) J.attribute("ordf", (int64_t)R2.Val.getInt().getExtValue());
          J.attribute("val2", (int64_t)id(x->getVal2()));
        }
      } else if (const auto *x = dyn_cast<DeclStmt>(s)) {
        J.attributeArray("decls", [&] {
          for (const Decl *d : x->decls()) {
            if (const auto *vd = dyn_cast<VarDecl>(d)) {
              J.object([&] {
                J.attribute("d", (int64_t)declId(vd));
                J.attribute("n", vd->getNameAsString());
                J.attribute("t", vd->getType().getAsString());
                int w = typeWidth(Ctx, vd->getType());
                if (w) J.attribute("w", (int64_t)w);
                if (const auto *cat = Ctx.getAsConstantArrayType(vd->getType()))
                  J.attribute("arr", (int64_t)cat->getSize().getZExtValue());
                if (vd->isStaticLocal()) J.attribute("static", true);
                if (vd->hasExternalStorage()) J.attribute("extern", true);
                if (vd->hasInit()) J.attribute("init", (int64_t)id(vd->getInit()));
              });
            }
          }
        });
      } else if (const auto *x = dyn_cast<IfStmt>(s)) {
        J.attribute("cond", (int64_t)id(x->getCond()));
        J.attribute("then", (int64_t)id(x->getThen()));
        if (x->getElse()) J.attribute("else", (int64_t)id(x->getElse()));
      } else if (const auto *x = dyn_cast<WhileStmt>(s)) {
        J.attribute("cond", (int64_t)id(x->getCond()));
        J.attribute("body", (int64_t)id(x->getBody()));
      } else if (const auto *x = dyn_cast<DoStmt>(s)) {
        J.attribute("cond", (int64_t)id(x->getCond()));
        J.attribute("body", (int64_t)id(x->getBody()));
      } else if (const auto *x = dyn_cast<ForStmt>(s)) {
        if (x->getInit()) J.attribute("init", (int64_t)id(x->getInit()));
        if (x->getCond()) J.attribute("cond", (int64_t)id(x->getCond()));
        if (x->getInc()) J.attribute("inc", (int64_t)id(x->getInc()));
        J.attribute("body", (int64_t)id(x->getBody()));
      } else if (const auto *x = dyn_cast<SwitchStmt>(s)) {
        J.attribute("cond", (int64_t)id(x->getCond()));
        J.attribute("body", (int64_t)id(x->getBody()));
      } else if (const auto *x = dyn_cast<CaseStmt>(s)) {
        Expr::EvalResult R;
        if (x->getLHS()->EvaluateAsInt(R, Ctx)) intAttr(J, "val", R.Val.getInt());
      } else if (const auto *x = dyn_cast<ReturnStmt>(s)) {
        if (x->getRetValue()) J.attribute("val", (int64_t)id(x->getRetValue()));
      } else if (const auto *x = dyn_cast<LabelStmt>(s)) {
        J.attribute("label", x->getName());
      } else if (const auto *x = dyn_cast<GotoStmt>(s)) {
        J.attribute("label", x->getLabel()->getName());
      } else if (const auto *x = dyn_cast<ConditionalOperator>(s)) {
        J.attribute("cond", (int64_t)id(x->getCond()));
        J.attribute("then", (int64_t)id(x->getTrueExpr()));
        J.attribute("else", (int64_t)id(x->getFalseExpr()));
      } else if (const auto *x = dyn_cast<OffsetOfExpr>(s)) {
        (void)x;
      }
    });
  }
};

static std::string recName(const RecordDecl *rd) {
  std::string rn = rd->getNameAsString();
  if (rn.empty()) if (const auto *td = rd->getTypedefNameForAnonDecl()) rn = td->getNameAsString();
  return rn;
}

static void emitAPValue(json::OStream &J, const APValue &V, QualType T, ASTContext &Ctx, int depth = 0) {
  switch (V.getKind()) {
  case APValue::Int: {
    const llvm::APSInt &i = V.getInt();
    if (i.isSigned() ? i.isSignedIntN(63) : i.isIntN(62)) J.value((int64_t)i.getExtValue());
    else J.value(llvm::toString(i, 10));
    return;
  }
  case APValue::Float: J.value(V.getFloat().convertToDouble()); return;
  case APValue::Struct: {
    const RecordDecl *rd = T.isNull() ? nullptr : (T->getAsRecordDecl());
    J.object([&] {
      if (!rd) return;
      unsigned i = 0;
      for (const FieldDecl *fd : rd->fields()) {
        if (i >= V.getStructNumFields()) break;
        std::string nm = fd->getNameAsString();
        if (nm.empty()) nm = "_anon" + std::to_string(i);
        J.attributeBegin(nm);
        emitAPValue(J, V.getStructField(i), fd->getType(), Ctx, depth + 1);
        J.attributeEnd();
        ++i;
      }
    });
    return;
  }
  case APValue::Union: {
    J.object([&] {
      if (const FieldDecl *fd = V.getUnionField()) {
        J.attributeBegin(fd->getNameAsString().empty() ? "_anon" : fd->getNameAsString());
        emitAPValue(J, V.getUnionValue(), fd->getType(), Ctx, depth + 1);
        J.attributeEnd();
      }
    });
    return;
  }
  case APValue::Array: {
    QualType ET;
    if (!T.isNull()) if (const ArrayType *at = Ctx.getAsArrayType(T)) ET = at->getElementType();
    J.array([&] {
      unsigned n = V.getArraySize(), init = V.getArrayInitializedElts();
      for (unsigned i = 0; i < n; ++i) {
        const APValue &e = i < init ? V.getArrayInitializedElt(i) : V.getArrayFiller();
        if (!V.hasArrayFiller() && i >= init) { J.value(nullptr); continue; }
        emitAPValue(J, e, ET, Ctx, depth + 1);
      }
    });
    return;
  }
  case APValue::LValue: {
    if (V.isNullPointer()) { J.value(nullptr); return; }
    APValue::LValueBase B = V.getLValueBase();
    J.object([&] {
      if (const ValueDecl *vd = B.dyn_cast<const ValueDecl *>()) {
        J.attribute(isa<FunctionDecl>(vd) ? "fn" : "ref", vd->getNameAsString());
      } else if (const Expr *e = B.dyn_cast<const Expr *>()) {
        if (const auto *sl = dyn_cast<StringLiteral>(e->IgnoreParenCasts())) {
          if (sl->getCharByteWidth() == 1) J.attribute("str", sl->getBytes());
        } else J.attribute("expr", e->getStmtClassName());
      } else if (!B) {
        J.attribute("abs", (int64_t)V.getLValueOffset().getQuantity());
      }
      if (B && V.getLValueOffset().getQuantity() != 0) J.attribute("off", (int64_t)V.getLValueOffset().getQuantity());
    });
    return;
  }
  default: J.value(nullptr); return;
  }
}

// Fold a (possibly non-const) aggregate initialiser by walking its semantic InitListExpr; leaves are folded by clang's
// constant evaluator. Used for tables such as options[], _mi_heap_empty, tld_empty.
static void emitInit(json::OStream &J, const Expr *E, QualType T, ASTContext &Ctx, int depth = 0) {
  if (!E || depth > 8) { J.value(nullptr); return; }
  const Expr *S = E->IgnoreParenImpCasts();
  if (const auto *IL = dyn_cast<InitListExpr>(S)) {
    if (IL->isSyntacticForm() && IL->getSemanticForm()) IL = IL->getSemanticForm();
    QualType CT = IL->getType().getCanonicalType();
    if (const RecordType *RT = CT->getAs<RecordType>()) {
      const RecordDecl *rd = RT->getDecl();
      J.object([&] {
        if (rd->isUnion()) {
          if (const FieldDecl *fd = IL->getInitializedFieldInUnion()) {
            if (IL->getNumInits() > 0) {
              J.attributeBegin(fd->getNameAsString().empty() ? "_anon" : fd->getNameAsString());
              emitInit(J, IL->getInit(0), fd->getType(), Ctx, depth + 1);
              J.attributeEnd();
            }
          }
          return;
        }
        unsigned i = 0;
        for (const FieldDecl *fd : rd->fields()) {
          if (fd->isUnnamedBitfield()) continue;
          if (i >= IL->getNumInits()) break;
          std::string nm = fd->getNameAsString();
          if (nm.empty()) nm = "_anon" + std::to_string(i);
          J.attributeBegin(nm);
          emitInit(J, IL->getInit(i), fd->getType(), Ctx, depth + 1);
          J.attributeEnd();
          ++i;
        }
      });
      return;
    }
    if (const ConstantArrayType *AT = Ctx.getAsConstantArrayType(CT)) {
      uint64_t n = AT->getSize().getZExtValue();
      J.array([&] {
        for (uint64_t i = 0; i < n && i < 4096; ++i) {
          if (i < IL->getNumInits()) emitInit(J, IL->getInit(i), AT->getElementType(), Ctx, depth + 1);
          else if (IL->hasArrayFiller()) emitInit(J, IL->getArrayFiller(), AT->getElementType(), Ctx, depth + 1);
          else J.value(nullptr);
        }
      });
      return;
    }
    if (IL->getNumInits() == 1) { emitInit(J, IL->getInit(0), T, Ctx, depth + 1); return; }
    J.value(nullptr);
    return;
  }
  if (isa<ImplicitValueInitExpr>(S)) { J.value(0); return; }
  if (const auto *SL = dyn_cast<StringLiteral>(S)) {
    if (SL->getCharByteWidth() == 1) { J.object([&] { J.attribute("str", SL->getBytes()); }); return; }
  }
  Expr::EvalResult R;
  if (!E->isValueDependent() && E->getType()->isIntegralOrEnumerationType() && E->EvaluateAsInt(R, Ctx)) {
    const llvm::APSInt &i = R.Val.getInt();
    if (i.isSigned() ? i.isSignedIntN(63) : i.isIntN(62)) J.value((int64_t)i.getExtValue());
    else J.value(llvm::toString(i, 10));
    return;
  }
  Expr::EvalResult R2;
  if (E->EvaluateAsRValue(R2, Ctx)) { emitAPValue(J, R2.Val, E->getType(), Ctx, depth + 1); return; }
  if (E->isNullPointerConstant(Ctx, Expr::NPC_ValueDependentIsNotNull)) { J.value(nullptr); return; }
  J.object([&] { J.attribute("expr", S->getStmtClassName()); });
}

class Consumer : public ASTConsumer {
public:
  void HandleTranslationUnit(ASTContext &Ctx) override {
    const SourceManager &SM = Ctx.getSourceManager();
    if (Ctx.getDiagnostics().hasErrorOccurred()) gHadError = true;
    std::map<const Decl *, int> declIds;
    std::string mainFile;
    if (const FileEntry *fe = SM.getFileEntryForID(SM.getMainFileID())) mainFile = fe->getName().str();
    gUnits.push_back(mainFile);
    walk(Ctx, Ctx.getTranslationUnitDecl(), declIds, mainFile);
  }

  static std::string fileOf(const SourceManager &SM, SourceLocation L) {
    PresumedLoc P = SM.getPresumedLoc(SM.getExpansionLoc(L));
    return P.isInvalid() ? std::string() : std::string(P.getFilename());
  }
  static unsigned lineOf(const SourceManager &SM, SourceLocation L) {
    PresumedLoc P = SM.getPresumedLoc(SM.getExpansionLoc(L));
    return P.isInvalid() ? 0 : P.getLine();
  }
  static bool inRoot(const std::string &f) {
    return f.compare(0, gRoot.size(), gRoot) == 0 || f.find("miverif_probe") != std::string::npos;
  }

  void walk(ASTContext &Ctx, const DeclContext *DC, std::map<const Decl *, int> &declIds, const std::string &unit) {
    const SourceManager &SM = Ctx.getSourceManager();
    for (const Decl *D : DC->decls()) {
      if (const auto *ed = dyn_cast<EnumDecl>(D)) {
        for (const EnumConstantDecl *ec : ed->enumerators())
          gEnums[ec->getNameAsString()] = llvm::toString(ec->getInitVal(), 10);
      } else if (const auto *rd = dyn_cast<RecordDecl>(D)) {
        if (rd->isCompleteDefinition() && inRoot(fileOf(SM, rd->getLocation()))) emitRecord(Ctx, rd);
      } else if (const auto *td = dyn_cast<TypedefDecl>(D)) {
        (void)td;
      } else if (const auto *vd = dyn_cast<VarDecl>(D)) {
        std::string f = fileOf(SM, vd->getLocation());
        if (inRoot(f) && vd->isThisDeclarationADefinition()) emitGlobal(Ctx, vd, f, declIds, unit);
      } else if (const auto *fd = dyn_cast<FunctionDecl>(D)) {
        std::string f = fileOf(SM, fd->getLocation());
        if (!inRoot(f)) continue;
        emitProto(Ctx, fd, f);
        if (fd->hasAttr<AliasAttr>()) emitAlias(Ctx, fd, f);
        if (fd->doesThisDeclarationHaveABody()) emitFunction(Ctx, fd, f, declIds, unit);
      }
    }
  }

  static void fnAttrs(json::OStream &J, const FunctionDecl *fd) {
    J.attribute("static", fd->getStorageClass() == SC_Static);
    J.attribute("inline", fd->isInlineSpecified());
    J.attribute("extern_visible", fd->isExternallyVisible());
    if (const auto *va = fd->getAttr<VisibilityAttr>())
      J.attribute("visibility", VisibilityAttr::ConvertVisibilityTypeToStr(va->getVisibility()));
    for (const FunctionDecl *r : fd->redecls())
      if (const auto *va = r->getAttr<VisibilityAttr>()) {
        J.attribute("visibility_any", VisibilityAttr::ConvertVisibilityTypeToStr(va->getVisibility()));
        break;
      }
    if (fd->hasAttr<WeakAttr>()) J.attribute("weak", true);
    if (fd->hasAttr<UsedAttr>()) J.attribute("used", true);
    if (fd->isNoReturn()) J.attribute("noreturn", true);
    if (const auto *aa = fd->getAttr<AliasAttr>()) J.attribute("alias", aa->getAliasee());
    J.attribute("ret", fd->getReturnType().getAsString());
    J.attributeArray("params", [&] {
      for (const ParmVarDecl *p : fd->parameters())
        J.object([&] {
          J.attribute("n", p->getNameAsString());
          J.attribute("t", p->getType().getAsString());
        });
    });
  }

  void emitProto(ASTContext &Ctx, const FunctionDecl *fd, const std::string &f) {
    const SourceManager &SM = Ctx.getSourceManager();
    std::string key = f + ":" + std::to_string(lineOf(SM, fd->getLocation())) + ":" + fd->getNameAsString();
    if (!gSeenProto.insert(key).second) return;
    std::string buf;
    llvm::raw_string_ostream OS(buf);
    json::OStream J(OS);
    J.object([&] {
      J.attribute("name", fd->getNameAsString());
      J.attribute("file", f);
      J.attribute("line", (int64_t)lineOf(SM, fd->getLocation()));
      J.attribute("def", fd->doesThisDeclarationHaveABody());
      fnAttrs(J, fd);
    });
    OS.flush();
    gProtos.push_back(buf);
  }

  void emitAlias(ASTContext &Ctx, const FunctionDecl *fd, const std::string &f) {
    const SourceManager &SM = Ctx.getSourceManager();
    std::string key = f + ":" + fd->getNameAsString();
    if (!gSeenAlias.insert(key).second) return;
    std::string buf;
    llvm::raw_string_ostream OS(buf);
    json::OStream J(OS);
    J.object([&] {
      J.attribute("name", fd->getNameAsString());
      J.attribute("file", f);
      J.attribute("line", (int64_t)lineOf(SM, fd->getLocation()));
      fnAttrs(J, fd);
    });
    OS.flush();
    gAliases.push_back(buf);
  }

  void emitRecord(ASTContext &Ctx, const RecordDecl *rd) {
    std::string rn = recName(rd);
    if (rn.empty() || rd->isInvalidDecl()) return;
    if (!gSeenRecord.insert(rn).second) return;
    std::string buf;
    llvm::raw_string_ostream OS(buf);
    json::OStream J(OS);
    const ASTRecordLayout &L = Ctx.getASTRecordLayout(rd);
    J.object([&] {
      J.attribute("name", rn);
      J.attribute("size", (int64_t)L.getSize().getQuantity());
      J.attribute("union", rd->isUnion());
      J.attributeArray("fields", [&] {
        unsigned i = 0;
        for (const FieldDecl *fd : rd->fields()) {
          J.object([&] {
            J.attribute("n", fd->getNameAsString());
            J.attribute("t", fd->getType().getAsString());
            J.attribute("bitoff", (int64_t)L.getFieldOffset(i));
            if (fd->isBitField()) J.attribute("bits", (int64_t)fd->getBitWidthValue(Ctx));
            else if (!fd->getType()->isIncompleteType()) J.attribute("size", (int64_t)Ctx.getTypeSizeInChars(fd->getType()).getQuantity());
            if (const auto *cat = Ctx.getAsConstantArrayType(fd->getType())) J.attribute("arr", (int64_t)cat->getSize().getZExtValue());
          });
          ++i;
        }
      });
    });
    OS.flush();
    gRecords.push_back(buf);
    // nested records
    for (const Decl *d : rd->decls())
      if (const auto *nrd = dyn_cast<RecordDecl>(d))
        if (nrd->isCompleteDefinition()) emitRecord(Ctx, nrd);
  }

  void emitGlobal(ASTContext &Ctx, const VarDecl *vd, const std::string &f, std::map<const Decl *, int> &declIds, const std::string &unit) {
    const SourceManager &SM = Ctx.getSourceManager();
    std::string key = f + ":" + vd->getNameAsString();
    if (!gSeenGlobal.insert(key).second) return;
    std::string buf;
    llvm::raw_string_ostream OS(buf);
    json::OStream J(OS);
    J.object([&] {
      J.attribute("name", vd->getNameAsString());
      J.attribute("file", f);
      J.attribute("unit", unit);
      J.attribute("line", (int64_t)lineOf(SM, vd->getLocation()));
      J.attribute("t", vd->getType().getAsString());
      J.attribute("static", vd->getStorageClass() == SC_Static);
      J.attribute("tls", vd->getTLSKind() != VarDecl::TLS_None);
      if (const auto *cat = Ctx.getAsConstantArrayType(vd->getType())) J.attribute("arr", (int64_t)cat->getSize().getZExtValue());
      if (!vd->getType()->isIncompleteType()) J.attribute("size", (int64_t)Ctx.getTypeSizeInChars(vd->getType()).getQuantity());
      if (vd->hasInit()) {
        J.attributeBegin("val");
        if (const APValue *v = vd->evaluateValue()) emitAPValue(J, *v, vd->getType(), Ctx);
        else emitInit(J, vd->getInit(), vd->getType(), Ctx);
        J.attributeEnd();
      }
    });
    OS.flush();
    gGlobals.push_back(buf);
  }

  void emitFunction(ASTContext &Ctx, const FunctionDecl *fd, const std::string &f, std::map<const Decl *, int> &declIds, const std::string &unit) {
    const SourceManager &SM = Ctx.getSourceManager();
    unsigned line = lineOf(SM, fd->getLocation());
    std::string key = f + ":" + std::to_string(line) + ":" + fd->getNameAsString();
    if (!gSeenFn.insert(key).second) return;
    const Stmt *body = fd->getBody();
    if (!body) return;

    FnEmitter E(Ctx, declIds);
    E.fnFile = f;
    E.number(body);

    CFG::BuildOptions BO;
    BO.setAllAlwaysAdd();
    BO.AddEHEdges = false;
    BO.AddImplicitDtors = false;
    BO.PruneTriviallyFalseEdges = true;
    std::unique_ptr<CFG> cfg = CFG::buildCFG(fd, const_cast<Stmt *>(body), &Ctx, BO);

    // Resolve all ids first (synthesized statements get ids now), so the node table is complete.
    struct Blk { unsigned id; std::vector<int> elems; int term = -1, cond = -1; std::string tk; std::vector<std::pair<int, int>> succs; int label = -1; bool noret = false; };
    std::vector<Blk> blocks;
    if (cfg) {
      for (const CFGBlock *b : *cfg) {
        Blk B;
        B.id = b->getBlockID();
        for (const CFGElement &el : *b)
          if (auto cs = el.getAs<CFGStmt>()) B.elems.push_back(E.id(cs->getStmt()));
        if (const Stmt *t = b->getTerminatorStmt()) { B.term = E.id(t); B.tk = t->getStmtClassName(); }
        if (const Stmt *c = b->getTerminatorCondition()) B.cond = E.id(c);
        if (const Stmt *l = b->getLabel()) B.label = E.id(l);
        B.noret = b->hasNoReturnElement();
        for (auto it = b->succ_begin(); it != b->succ_end(); ++it) {
          const CFGBlock *r = it->getReachableBlock();
          const CFGBlock *pu = it->getPossiblyUnreachableBlock();
          B.succs.push_back({r ? (int)r->getBlockID() : -1, pu ? (int)pu->getBlockID() : -1});
        }
        blocks.push_back(B);
      }
    }

    std::string buf;
    llvm::raw_string_ostream OS(buf);
    json::OStream J(OS);
    J.object([&] {
      J.attribute("name", fd->getNameAsString());
      J.attribute("file", f);
      J.attribute("unit", unit);
      J.attribute("line", (int64_t)line);
      J.attribute("end", (int64_t)lineOf(SM, fd->getEndLoc()));
      fnAttrs(J, fd);
      J.attributeArray("pids", [&] { for (const ParmVarDecl *p : fd->parameters()) J.value((int64_t)E.declId(p)); });
      J.attribute("body", (int64_t)E.id(body));
      // nodes may grow while emitting (synthesized children), so iterate by index
      J.attributeArray("nodes", [&] {
        for (size_t i = 0; i < E.order.size(); ++i) E.emitNode(J, E.order[i]);
      });
      if (cfg) {
        J.attributeObject("cfg", [&] {
          J.attribute("entry", (int64_t)cfg->getEntry().getBlockID());
          J.attribute("exit", (int64_t)cfg->getExit().getBlockID());
          J.attributeArray("blocks", [&] {
            for (const Blk &B : blocks) {
              J.object([&] {
                J.attribute("id", (int64_t)B.id);
                J.attributeArray("elems", [&] { for (int e : B.elems) J.value((int64_t)e); });
                if (B.term >= 0) { J.attribute("term", (int64_t)B.term); J.attribute("tk", B.tk); }
                if (B.cond >= 0) J.attribute("cond", (int64_t)B.cond);
                if (B.label >= 0) J.attribute("label", (int64_t)B.label);
                if (B.noret) J.attribute("noret", true);
                J.attributeArray("succs", [&] { for (auto &s : B.succs) J.value((int64_t)s.first); });
                J.attributeArray("psuccs", [&] { for (auto &s : B.succs) J.value((int64_t)s.second); });
              });
            }
          });
        });
      }
    });
    OS.flush();
    gFunctions.push_back(buf);
  }
};

class Action : public ASTFrontendAction {
public:
  std::unique_ptr<ASTConsumer> CreateASTConsumer(CompilerInstance &, StringRef) override {
    return std::make_unique<Consumer>();
  }
};

int main(int argc, const char **argv) {
  if (argc < 5) { llvm::errs() << "usage: mifacts <out.json> <root-prefix> <file.c>... -- <flags>\n"; return 2; }
  std::string out = argv[1];
  gRoot = argv[2];
  std::vector<std::string> files;
  int i = 3;
  for (; i < argc && std::string(argv[i]) != "--"; ++i) files.push_back(argv[i]);
  std::vector<std::string> flags;
  for (++i; i < argc; ++i) flags.push_back(argv[i]);
  clang::tooling::FixedCompilationDatabase DB(".", flags);
  clang::tooling::ClangTool Tool(DB, files);
  int rc = Tool.run(clang::tooling::newFrontendActionFactory<Action>().get());
  std::error_code EC;
  llvm::raw_fd_ostream OS(out, EC);
  if (EC) { llvm::errs() << "cannot write " << out << "\n"; return 2; }
  auto dump = [&](const char *key, std::vector<std::string> &v, bool last) {
    OS << "\"" << key << "\":[\n";
    for (size_t k = 0; k < v.size(); ++k) OS << v[k] << (k + 1 < v.size() ? ",\n" : "\n");
    OS << "]" << (last ? "\n" : ",\n");
  };
  OS << "{\n\"units\":[";
  for (size_t k = 0; k < gUnits.size(); ++k) OS << (k ? "," : "") << "\"" << gUnits[k] << "\"";
  OS << "],\n\"enums\":{";
  bool first = true;
  for (auto &kv : gEnums) { OS << (first ? "" : ",") << "\"" << kv.first << "\":\"" << kv.second << "\""; first = false; }
  OS << "},\n";
  dump("records", gRecords, false);
  dump("globals", gGlobals, false);
  dump("aliases", gAliases, false);
  dump("protos", gProtos, false);
  dump("functions", gFunctions, true);
  OS << "}\n";
  OS.close();
  if (rc != 0 || gHadError) return 3;
  return 0;
}
