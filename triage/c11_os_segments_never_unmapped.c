#include <mimalloc.h>
#include <stdio.h>
int main(){ 
  for (int i=0;i<3;i++){ void* p = mi_malloc(100*1024*1024); ((char*)p)[5]=1; fprintf(stderr,"alloc %p\n",p); mi_free(p); mi_collect(true);} 
  return 0; }
