#include <mimalloc.h>
#include <stdio.h>
#include <unistd.h>
#include <string.h>
int main(){
  enum {N=6};
  void* p[N];
  for(int i=0;i<N;i++){ p[i]=mi_malloc(40*1024*1024); memset(p[i],1,40*1024*1024);}   // huge blocks -> own segments in arena
  fprintf(stderr,"--- freeing\n");
  for(int i=0;i<N;i++) mi_free(p[i]);
  fprintf(stderr,"--- freed; sleeping 500ms\n");
  usleep(500*1000);
  fprintf(stderr,"--- ordinary activity\n");
  for(int r=0;r<50;r++){ void* q[2000]; for(int i=0;i<2000;i++) q[i]=mi_malloc(64+(i%7)*300); for(int i=0;i<2000;i++) mi_free(q[i]); usleep(5000); if(r%10==0) mi_collect(false);}
  void* h=mi_malloc(40*1024*1024); mi_free(h);
  usleep(300*1000);
  h=mi_malloc(40*1024*1024); mi_free(h);
  mi_collect(false);
  fprintf(stderr,"--- before forced collect\n");
  mi_collect(true);
  fprintf(stderr,"--- done\n");
  return 0; }
