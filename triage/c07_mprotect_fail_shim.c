#define _GNU_SOURCE
#include <dlfcn.h>
#include <sys/mman.h>
#include <errno.h>
#include <stdlib.h>
#include <stdio.h>
static int count = 0;
int mprotect(void* addr, size_t len, int prot) {
  static int (*real)(void*,size_t,int) = 0; if (!real) real = dlsym(RTLD_NEXT,"mprotect");
  const char* k = getenv("FAIL_MPROTECT_MINLEN");
  size_t minlen = k ? strtoull(k,0,10) : 0;
  if (minlen && len >= minlen && prot != PROT_NONE && count++ == 0) { fprintf(stderr,"[shim] failing mprotect(%p,%zu)\n",addr,len); errno = ENOMEM; return -1; }
  return real(addr,len,prot);
}
