// discovery fuzzer (triage tool, not a check): single-threaded random API histories against a shadow model
#include <mimalloc.h>
#include <stdio.h>
#include <stdlib.h>
#include <string.h>
#include <stdint.h>
#include <errno.h>

#define MAXLIVE 4000
#define MAXHEAPS 6
typedef struct { unsigned char* p; size_t req; size_t wr; int zero; uint32_t seed; int heap; size_t align; size_t off; } blk_t;
static blk_t live[MAXLIVE]; static int nlive = 0;
static mi_heap_t* heaps[MAXHEAPS]; static int heap_destroyable[MAXHEAPS];
static uint64_t rs = 88172645463325252ULL;
static uint64_t rnd(void){ rs ^= rs << 13; rs ^= rs >> 7; rs ^= rs << 17; return rs; }
static size_t rnd_size(void){
  uint64_t r = rnd()%100;
  if (r < 45) return rnd()%256;
  if (r < 70) return rnd()%2048;
  if (r < 85) return rnd()%(70*1024);
  if (r < 95) return rnd()%(600*1024);
  if (r < 99) return rnd()%(4*1024*1024);
  return 17*1024*1024 + rnd()%(30*1024*1024);
}
static size_t rnd_align(void){
  uint64_t r = rnd()%100;
  if (r < 60) return (size_t)1 << (rnd()%8);        // 1..128
  if (r < 90) return (size_t)1 << (rnd()%17);       // ..64KiB
  if (r < 98) return (size_t)1 << (17 + rnd()%7);   // 128KiB..8MiB
  return (size_t)1 << (24 + rnd()%3);               // 16MiB..64MiB
}
static int fails = 0; static long step = 0;
#define FAIL(...) do { fprintf(stderr,"FAIL step %ld: ", step); fprintf(stderr,__VA_ARGS__); fprintf(stderr,"\n"); if (++fails > 10) exit(1); } while(0)
static unsigned char pat(uint32_t seed, size_t i){ return (unsigned char)((seed*2654435761u + i*40503u) >> 13 | 1); }
static void fill(blk_t* b){ for (size_t i=0;i<b->wr;i++) b->p[i] = pat(b->seed,i); }
static void check(blk_t* b, const char* when){ for (size_t i=0;i<b->wr;i++) if (b->p[i] != pat(b->seed,i)) { FAIL("content of %p (req %zu wr %zu) changed at %zu (%s)", b->p, b->req, b->wr, i, when); return; } }
static void check_new(unsigned char* p, size_t req, int zero, size_t align, size_t off, const char* what){
  size_t us = mi_usable_size(p);
  if (us < req) FAIL("%s: usable %zu < req %zu", what, us, req);
  size_t minal = (req >= 16 ? 16 : 8);
  if (((uintptr_t)p % minal) != 0 && align <= 1) FAIL("%s: %p not %zu aligned (req %zu)", what, p, minal, req);
  if (align > 1 && (((uintptr_t)p + off) % align) != 0) FAIL("%s: %p+%zu not aligned to %zu", what, p, off, align);
  if (zero) for (size_t i=0;i<req;i++) if (p[i]!=0) { FAIL("%s: not zero at %zu of %zu (p=%p)", what, i, req, p); break; }
  for (int i=0;i<nlive;i++){ unsigned char* q = live[i].p; size_t qs = mi_usable_size(q); if (p < q+qs && q < p+us) { FAIL("%s: %p+%zu overlaps live %p+%zu", what, p, us, q, qs); break; } }
}
static void add(unsigned char* p, size_t req, int zero, int heap, size_t align, size_t off){
  blk_t* b = &live[nlive++]; b->p=p; b->req=req; b->zero=zero; b->seed=(uint32_t)rnd(); b->heap=heap; b->align=align; b->off=off;
  b->wr = (zero ? req : mi_usable_size(p));   // zero-family: only write the requested part
  fill(b);
}
static void del(int i){ live[i] = live[--nlive]; }
typedef struct { int heap; int count; int bad; } walk_t;
static bool visitor(const mi_heap_t* h, const mi_heap_area_t* a, void* block, size_t bsize, void* arg){
  (void)h; (void)a; walk_t* w = (walk_t*)arg; if (block==NULL) return true;
  int found = 0;
  for (int i=0;i<nlive;i++){ if (live[i].heap==w->heap && (unsigned char*)block <= live[i].p && live[i].p < (unsigned char*)block + bsize && live[i].p + live[i].req <= (unsigned char*)block + bsize) { found++; } }
  if (found != 1) w->bad++;
  w->count++; return true;
}
int main(int argc, char** argv){
  long nsteps = (argc>1 ? atol(argv[1]) : 200000); if (argc>2) rs ^= (uint64_t)atoll(argv[2])*0x9E3779B97F4A7C15ULL;
  int do_walk = (argc>3 ? atoi(argv[3]) : 1);
  heaps[0] = mi_heap_get_default();
  for (step=0; step<nsteps; step++){
    uint64_t op = rnd()%100;
    if (op < 45 && nlive < MAXLIVE) {  // allocate
      int h = (int)(rnd()%MAXHEAPS); if (heaps[h]==NULL) h = 0;
      size_t n = rnd_size(); int kind = (int)(rnd()%12); unsigned char* p = NULL; int zero=0; size_t al=0, off=0;
      switch(kind){
        case 0: p = mi_heap_malloc(heaps[h], n); break;
        case 1: p = mi_heap_zalloc(heaps[h], n); zero=1; break;
        case 2: { size_t c = 1 + rnd()%7; size_t s = n/c; n = c*s; p = mi_heap_calloc(heaps[h], c, s); zero=1; break; }
        case 3: { size_t c = 1 + rnd()%7; size_t s = n/c; n = c*s; p = mi_heap_mallocn(heaps[h], c, s); break; }
        case 4: n %= (MI_SMALL_SIZE_MAX+1); p = (rnd()&1) ? mi_heap_malloc_small(heaps[h], n) : (h=0, zero=1, mi_zalloc_small(n)); break;
        case 5: al = rnd_align(); p = mi_heap_malloc_aligned(heaps[h], n, al); break;
        case 6: al = rnd_align(); if (al > (size_t)(16*1024*1024)) { off = 0; } else off = (rnd()%(n+1)) & ~(size_t)7; p = mi_heap_malloc_aligned_at(heaps[h], n, al, off); break;
        case 7: al = rnd_align(); p = mi_heap_zalloc_aligned(heaps[h], n, al); zero=1; break;
        case 8: al = rnd_align(); if (al > (size_t)(16*1024*1024)) { off = 0; } else off = (rnd()%(n+1)) & ~(size_t)7; p = mi_heap_zalloc_aligned_at(heaps[h], n, al, off); zero=1; break;
        case 9: { al = rnd_align(); if (al < sizeof(void*)) al = sizeof(void*); void* q=NULL; int e = mi_posix_memalign(&q, al, n); if (e!=0) { q=NULL; } p = q; h = 0; break; }
        case 10:{ h=0; char tmp[64]; size_t l = rnd()%63; memset(tmp,'x',l); tmp[l]=0; p = (unsigned char*)mi_strdup(tmp); n = l+1; break; }
        default: { size_t c = 1 + rnd()%5; size_t s = n/c; n=c*s; al = rnd_align(); p = mi_heap_calloc_aligned(heaps[h], c, s, al); zero=1; break; }
      }
      if (p==NULL) { if (n < 100*1024*1024 && !getenv("FZ_ALLOWNULL")) FAIL("alloc kind %d size %zu align %zu returned NULL", kind, n, al); continue; }
      if (kind==10) { for(size_t i=0;i+1<n;i++) if (p[i]!='x') FAIL("strdup content"); }
      check_new(p, n, zero, al, off, "alloc");
      add(p, n, zero, h, al, off);
    }
    else if (op < 75 && nlive > 0) { // free
      int i = (int)(rnd()%nlive); check(&live[i], "free");
      switch(rnd()%4){ case 0: mi_free(live[i].p); break; case 1: mi_free_size(live[i].p, live[i].req); break;
        case 2: if (live[i].align>1 && live[i].off==0) { mi_free_aligned(live[i].p, live[i].align); break; } /* fallthrough */
        default: mi_free(live[i].p); }
      del(i);
    }
    else if (op < 92 && nlive > 0) { // realloc family
      int i = (int)(rnd()%nlive); blk_t* b = &live[i]; check(b, "realloc-before");
      size_t n = rnd_size(); if (rnd()%3==0) n = b->req + rnd()%64; if (rnd()%5==0) n = b->req/2 + rnd()%(b->req/2+1);
      if (b->zero && n < b->req) n = b->req + rnd()%128;   // zero family: monotone growth chains only
      int h = b->heap; if (heaps[h]==NULL) h = 0;
      unsigned char* q; int kind = (int)(rnd()%6); size_t al = b->align, off = b->off; int zero = b->zero;
      size_t oldreq = b->req, oldwr = b->wr; uint32_t seed = b->seed;
      if (al > 1 && kind < 4) kind = 4 + (kind&1);
      if (al <= 1 && kind >= 4) { kind = kind - 4; al = 0; off = 0; }
      switch(kind){
        case 0: q = mi_heap_realloc(heaps[h], b->p, n); zero = 0; break;
        case 1: if (zero) { q = mi_heap_rezalloc(heaps[h], b->p, n); } else { q = mi_heap_realloc(heaps[h], b->p, n); } break;
        case 2: { size_t c = 1+rnd()%4; size_t s = n/c; n=c*s; if (zero && n < b->req) continue; if (zero) q = mi_heap_recalloc(heaps[h], b->p, c, s); else q = mi_heap_reallocn(heaps[h], b->p, c, s); break; }
        case 3: { void* e = mi_expand(b->p, n); if (e!=NULL) { if (e != b->p) FAIL("expand moved"); if (n > mi_usable_size(b->p)) FAIL("expand beyond usable"); } else if (n <= mi_usable_size(b->p) && !getenv("FZ_NOEXPAND")) FAIL("expand refused %zu <= usable %zu", n, mi_usable_size(b->p)); continue; }
        case 4: if (off==0) { if (zero) q = mi_heap_rezalloc_aligned(heaps[h], b->p, n, al); else q = mi_heap_realloc_aligned(heaps[h], b->p, n, al); }
                else { if (zero) q = mi_heap_rezalloc_aligned_at(heaps[h], b->p, n, al, off); else q = mi_heap_realloc_aligned_at(heaps[h], b->p, n, al, off); }
                break;
        default: if (al<=1) { al = 0; off = 0; q = mi_heap_realloc(heaps[h], b->p, n); zero = 0; }
                 else { if (off==0) q = mi_heap_realloc_aligned(heaps[h], b->p, n, al); else q = mi_heap_realloc_aligned_at(heaps[h], b->p, n, al, off); zero = 0; }
      }
      if (q==NULL) { if (n < 100*1024*1024 && !getenv("FZ_ALLOWNULL")) FAIL("realloc kind %d to %zu returned NULL", kind, n); continue; }
      blk_t nb = *b; del(i);
      // content preserved up to min(oldwr, n)
      size_t keep = (oldwr < n ? oldwr : n);
      for (size_t k=0;k<keep;k++) if (q[k] != pat(seed,k)) { FAIL("realloc kind %d lost content at %zu (old req %zu wr %zu new %zu) moved=%d", kind, k, oldreq, oldwr, n, q!=nb.p); break; }
      if (zero && n > oldreq) for (size_t k=oldreq;k<n;k++) if (q[k]!=0) { FAIL("rezalloc kind %d grown tail not zero at %zu (old %zu new %zu) moved=%d", kind, k, oldreq, n, q!=nb.p); break; }
      if (kind >= 4 || al > sizeof(void*)) { if (al>1 && (((uintptr_t)q + off) % al)!=0 && kind>=4) FAIL("realloc_aligned lost alignment %zu off %zu", al, off); }
      { size_t us = mi_usable_size(q); if (us < n) FAIL("realloc usable %zu < %zu", us, n);
        for (int j=0;j<nlive;j++){ unsigned char* r = live[j].p; size_t rs2 = mi_usable_size(r); if (q < r+rs2 && r < q+us) { FAIL("realloc result overlaps live block"); break; } } }
      add(q, n, zero, nb.heap, (kind>=4?al:0), (kind>=4?off:0));
    }
    else if (op < 95) { // heap ops
      int h = 1 + (int)(rnd()%(MAXHEAPS-1));
      if (heaps[h]==NULL) { heaps[h] = mi_heap_new(); heap_destroyable[h]=1; }
      else if (rnd()%2==0) { // delete: blocks survive and migrate to backing heap
        mi_heap_delete(heaps[h]); heaps[h]=NULL; for (int i=0;i<nlive;i++) if (live[i].heap==h) live[i].heap=0;
      } else { // destroy: blocks of that heap are gone
        mi_heap_destroy(heaps[h]); heaps[h]=NULL; for (int i=0;i<nlive;) { if (live[i].heap==h) del(i); else i++; }
      }
    }
    else if (op < 97) { mi_collect((rnd()%3)==0); }
    else if (do_walk) { // heap walk vs shadow
      for (int h=0; h<MAXHEAPS; h++) if (heaps[h]!=NULL) {
        walk_t w = { h, 0, 0 }; mi_heap_visit_blocks(heaps[h], true, &visitor, &w);
        int expect = 0; for (int i=0;i<nlive;i++) if (live[i].heap==h) expect++;
        int extra = 0; if (h==0) for (int k=1;k<MAXHEAPS;k++) if (heaps[k]!=NULL) extra++;   // heap descriptors live in the backing heap
        if (w.count != expect + extra || w.bad > extra) FAIL("heap walk heap %d: visited %d (unmatched %d) expected %d (+%d descriptors)", h, w.count, w.bad, expect, extra);
        if (mi_heap_contains_block(heaps[h], NULL)) FAIL("contains NULL");
      }
      for (int i=0;i<nlive && i<50;i++) { int h = live[i].heap; if (heaps[h] && !mi_heap_contains_block(heaps[h], live[i].p)) FAIL("contains_block false for own block"); }
    }
    if ((step % 5000)==0) for (int i=0;i<nlive;i++) check(&live[i], "periodic");
  }
  for (int i=0;i<nlive;i++) check(&live[i], "final");
  fprintf(stderr,"done: steps %ld live %d fails %d\n", nsteps, nlive, fails);
  return fails!=0;
}
