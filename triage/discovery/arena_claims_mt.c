#define _GNU_SOURCE
#include <mimalloc.h>
#include <stdio.h>
#include <string.h>
#include <stdlib.h>
#include <pthread.h>
#include <stdatomic.h>
#include <sys/mman.h>
#include <stdint.h>
#define BLOCK (32UL*1024*1024)
static char* as; static size_t asz; static _Atomic(long) errors; static mi_arena_id_t aid;
#define NSLOT 64
static struct { _Atomic(uintptr_t) p; size_t size; } live[NSLOT];
static pthread_mutex_t mu = PTHREAD_MUTEX_INITIALIZER;
static void* worker(void* a){ unsigned long long s = (uintptr_t)a*7919+1; mi_heap_t* h = mi_heap_new_in_arena(aid);
  for (int it=0; it<400; it++){ s = s*6364136223846793005ULL+1; int k = (s>>33)%NSLOT; 
    pthread_mutex_lock(&mu); uintptr_t old = live[k].p; live[k].p = 0; pthread_mutex_unlock(&mu);
    if (old) { mi_free((void*)old); continue; }
    size_t nblocks = 1 + (s>>40)%5; size_t size = nblocks*BLOCK - 2*1024*1024;   // huge block occupying nblocks arena blocks
    char* p = mi_heap_malloc(h, size); if (!p) continue;
    if (p < as || p+size > as+asz) { atomic_fetch_add(&errors,1); fprintf(stderr,"outside arena\n"); }
    p[0]=1; p[size-1]=2;
    pthread_mutex_lock(&mu);
    for (int j=0;j<NSLOT;j++){ uintptr_t q = live[j].p; if (q && (char*)q < p+size && p < (char*)q+live[j].size) { atomic_fetch_add(&errors,1); fprintf(stderr,"OVERLAP %p+%zu with %p+%zu\n", p,size,(void*)q,live[j].size); } }
    if (live[k].p==0) { live[k].p=(uintptr_t)p; live[k].size=size; p=NULL; }
    pthread_mutex_unlock(&mu);
    if (p) mi_free(p);
  }
  mi_heap_delete(h); return NULL; }
int main(void){ size_t nb = 150; asz = nb*BLOCK; char* raw = mmap(NULL, asz+BLOCK, PROT_NONE, MAP_PRIVATE|MAP_ANONYMOUS|MAP_NORESERVE, -1, 0); as = (char*)(((uintptr_t)raw + BLOCK-1) & ~(BLOCK-1));
  if (!mi_manage_os_memory_ex(as, asz, false, false, true, -1, true, &aid)) { fprintf(stderr,"manage failed\n"); return 2; }
  pthread_t t[12]; for (int i=0;i<12;i++) pthread_create(&t[i],NULL,worker,(void*)(uintptr_t)(i+1)); for (int i=0;i<12;i++) pthread_join(t[i],NULL);
  for (int j=0;j<NSLOT;j++) if (live[j].p) mi_free((void*)live[j].p);
  mi_collect(true);
  // now the arena must be allocatable completely again: 150 single-block claims (or 75 two-block claims)
  mi_heap_t* h = mi_heap_new_in_arena(aid); int got=0; for (int i=0;i<200;i++){ void* p = mi_heap_malloc(h, BLOCK - 2*1024*1024); if (p) got++; }
  fprintf(stderr,"errors=%ld single-block claims after full free: %d of %zu\n", atomic_load(&errors), got, nb);
  return atomic_load(&errors)!=0 || got != (int)nb; }
