#define _GNU_SOURCE
#include <dlfcn.h>
#include <sys/mman.h>
#include <errno.h>
#include <stdlib.h>
#include <stdio.h>
#include <string.h>
static long counter = 0; static long fail_at = -1, fail_from = -1; static int inited = 0; static int verbose = 0;
static void init(void){ if (inited) return; inited = 1; const char* s = getenv("FAIL_AT"); if (s) fail_at = atol(s); s = getenv("FAIL_FROM"); if (s) fail_from = atol(s); verbose = getenv("FAIL_VERBOSE")!=NULL; }
static int should_fail(const char* what, void* addr, size_t len){ init(); long k = ++counter; int f = (k == fail_at) || (fail_from > 0 && k >= fail_from); if (f && verbose) fprintf(stderr,"[shim] fail #%ld %s(%p,%zu)\n", k, what, addr, len); return f; }
void* mmap(void* addr, size_t len, int prot, int flags, int fd, off_t off){
  static void* (*real)(void*,size_t,int,int,int,off_t) = 0; if (!real) real = dlsym(RTLD_NEXT,"mmap");
  if ((flags & MAP_ANONYMOUS) && should_fail("mmap",addr,len)) { errno = ENOMEM; return MAP_FAILED; }
  return real(addr,len,prot,flags,fd,off); }
int mprotect(void* addr, size_t len, int prot){
  static int (*real)(void*,size_t,int) = 0; if (!real) real = dlsym(RTLD_NEXT,"mprotect");
  if (should_fail("mprotect",addr,len)) { errno = ENOMEM; return -1; }
  return real(addr,len,prot); }
int madvise(void* addr, size_t len, int advice){
  static int (*real)(void*,size_t,int) = 0; if (!real) real = dlsym(RTLD_NEXT,"madvise");
  if (should_fail("madvise",addr,len)) { errno = ENOMEM; return -1; }
  return real(addr,len,advice); }
int munmap(void* addr, size_t len){
  static int (*real)(void*,size_t) = 0; if (!real) real = dlsym(RTLD_NEXT,"munmap");
  if (should_fail("munmap",addr,len)) { errno = EINVAL; return -1; }
  return real(addr,len); }
long shim_count(void){ return counter; }
