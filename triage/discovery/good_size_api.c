#include <mimalloc.h>
#include <stdio.h>
#include <stdint.h>
int main(void){ int bad=0; size_t prev=0;
  for (size_t n=0;n<=2*65536;n++){ size_t g = mi_good_size(n); if (g<n){printf("good_size(%zu)=%zu < n\n",n,g);bad++;} if (mi_good_size(g)!=g){printf("not idempotent at %zu: %zu -> %zu\n",n,g,mi_good_size(g));bad++;} if (g<prev){printf("not monotone at %zu\n",n);bad++;} prev=g;
    if (n>64 && (g-n)*4 > g) { printf("waste >25%% at %zu (good %zu)\n", n, g); bad++; }
    if (n<=65536 || (n%257)==0) { void* p = mi_malloc(n); size_t u = mi_usable_size(p); if (n<=65536 && u!=g){printf("usable(malloc(%zu))=%zu != good_size %zu\n",n,u,g);bad++;} if (u<n){printf("usable<n at %zu\n",n);bad++;} if (((uintptr_t)p % (n>=16?16:8))!=0){printf("misaligned %zu\n",n);bad++;} mi_free(p);} if (bad>10) break; }
  size_t big[] = { (size_t)1<<20, ((size_t)1<<20)+1, (size_t)1<<30, ((size_t)1<<40)+123, (size_t)PTRDIFF_MAX-4096, (size_t)PTRDIFF_MAX };
  for (int i=0;i<6;i++){ size_t g=mi_good_size(big[i]); if (g<big[i]||mi_good_size(g)!=g){printf("big good_size(%zu)=%zu\n",big[i],g);bad++;} }
  printf("c16 api check bad=%d\n",bad); return bad; }
