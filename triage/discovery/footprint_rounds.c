#include <mimalloc.h>
#include <stdio.h>
#include <string.h>
#include <stdlib.h>
#include <pthread.h>
static void maps(const char* tag){ FILE* f=fopen("/proc/self/maps","r"); char line[512]; unsigned long total=0, n=0, rss=0; while(fgets(line,sizeof line,f)){ unsigned long a,b; if (sscanf(line,"%lx-%lx",&a,&b)==2 && strstr(line,"mimalloc")) { total += b-a; n++; } } fclose(f);
  f=fopen("/proc/self/statm","r"); unsigned long sz,res; if (fscanf(f,"%lu %lu",&sz,&res)==2) rss=res*4; fclose(f); fprintf(stderr,"%-28s mimalloc mappings=%lu total=%lu KiB rss=%lu KiB\n", tag, n, total/1024, rss); }
static void* thr(void* a){ (void)a; void* p[200]; for(int i=0;i<200;i++){ p[i]=mi_malloc(100+i*50); memset(p[i],1,100+i*50);} for(int i=0;i<200;i++) mi_free(p[i]); return NULL; }
static void work(void){ enum {N=3000}; static void* p[N]; for(int i=0;i<N;i++){ size_t s = (i%50==0? 3000000 : (i%7==0? 70000 : 200+i%3000)); p[i]=mi_malloc(s); memset(p[i],2,s);} void* h1=mi_malloc(50*1024*1024); memset(h1,1,50*1024*1024); void* h2=mi_malloc_aligned(1000, 64*1024*1024); memset(h2,1,1000);
  pthread_t t[8]; for(int i=0;i<8;i++) pthread_create(&t[i],NULL,thr,NULL); for(int i=0;i<8;i++) pthread_join(t[i],NULL);
  for(int i=0;i<N;i++) mi_free(p[i]); mi_free(h1); mi_free(h2); mi_collect(true); }
int main(void){ maps("start"); for (int r=0;r<6;r++){ work(); char tag[32]; snprintf(tag,32,"after round %d",r); maps(tag);} return 0; }
