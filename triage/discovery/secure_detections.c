#include <mimalloc.h>
#include <stdio.h>
#include <string.h>
#include <errno.h>
#include <stdint.h>
static int n_eagain, n_efault, n_other;
static void onerr(int err, void* arg){ (void)arg; if (err==EAGAIN) n_eagain++; else if (err==EFAULT) n_efault++; else n_other++; }
int main(void){
  mi_register_error(onerr, NULL);
  int bad = 0;
  // 1. double free for many sizes with another live block in the same page
  int sizes[] = { 1, 8, 16, 24, 40, 100, 500, 1000, 4000, 9000, 30000, 60000 };
  for (unsigned k=0;k<sizeof(sizes)/sizeof(int);k++){
    void* a = mi_malloc(sizes[k]); void* b = mi_malloc(sizes[k]); void* c = mi_malloc(sizes[k]);
    int before = n_eagain; mi_free(b); mi_free(b);
    if (n_eagain != before+1) { printf("double free of size %d not reported (eagain %d->%d)\n", sizes[k], before, n_eagain); bad++; }
    // heap still consistent: allocate a few and check no duplicates
    void* x[8]; for (int i=0;i<8;i++) x[i]=mi_malloc(sizes[k]);
    for (int i=0;i<8;i++) for (int j=i+1;j<8;j++) if (x[i]==x[j]) { printf("size %d handed out twice after double free\n", sizes[k]); bad++; }
    for (int i=0;i<8;i++) mi_free(x[i]); mi_free(a); mi_free(c);
  }
  // 2. overflow by one byte past the requested size
  for (unsigned k=0;k<sizeof(sizes)/sizeof(int);k++){
    unsigned char* a = mi_malloc(sizes[k]); void* keep = mi_malloc(sizes[k]);
    int before = n_efault; a[sizes[k]] ^= 0x5A; mi_free(a);
    if (n_efault != before+1) { printf("overflow after %d bytes not reported (efault %d->%d)\n", sizes[k], before, n_efault); bad++; }
    mi_free(keep);
  }
  // 3. corrupted free-list link
  for (unsigned k=0;k<6;k++){
    void* a = mi_malloc(sizes[k+2]); void* b = mi_malloc(sizes[k+2]); void* keep = mi_malloc(sizes[k+2]);
    mi_free(a); mi_free(b);           // b -> a on the local free list
    *(uintptr_t*)b = 0x4141414141414140ULL;   // forged link
    int before = n_efault;
    void* x[600]; int n=0; for (; n<600; n++) { x[n] = mi_malloc(sizes[k+2]); if (!x[n]) break; }   // forces the list to be walked
    if (n_efault == before) { printf("forged link (size %d) not reported\n", sizes[k+2]); bad++; }
    for (int i=0;i<n;i++) for (int j=i+1;j<n && j<i+3;j++) if (x[i]==x[j]) { printf("dup after corrupt\n"); bad++; }
    for (int i=0;i<n;i++) mi_free(x[i]); mi_free(keep);
  }
  printf("secure checks: eagain=%d efault=%d other=%d bad=%d\n", n_eagain, n_efault, n_other, bad);
  return bad; }
