#include <mimalloc.h>
#include <mimalloc-stats.h>
#include <stdio.h>
#include <string.h>
#include <stdlib.h>
static void out(const char* msg, void* arg){ (void)arg; static size_t total; total += strlen(msg); }
int main(void){
  void* p = mi_malloc(100); mi_free(p);
  int bad = 0;
  static char big[20000];
  for (size_t n = 0; n <= 9000; n++) {
    memset(big, 0x7E, sizeof(big));
    char* r = mi_stats_get_json(n, big);
    if (n == 0) { if (r == NULL) { printf("n=0 returned NULL\n"); bad++; } else if (r != big) mi_free(r); continue; }
    if (r != big) { printf("n=%zu: returned other buffer\n", n); bad++; }
    for (size_t i = n; i < n+64; i++) if (big[i] != 0x7E) { printf("n=%zu: wrote past buffer at %zu\n", n, i); bad++; break; }
    size_t len = strnlen(big, n); if (len >= n) { printf("n=%zu: no terminator inside buffer\n", n); bad++; }
    if (bad > 5) break;
  }
  char* full = mi_stats_get_json(0, NULL); printf("full json length %zu\n", full? strlen(full):0); mi_free(full);
  mi_stats_print_out(out, NULL); mi_options_print();
  printf("json test bad=%d\n", bad); return bad; }
