#include <mimalloc.h>
#include <stdio.h>
#include <string.h>
#include <stdlib.h>
#include <pthread.h>
#include <dlfcn.h>
#define N 600
static unsigned char* b[N]; static size_t bs[N];
static void* thr(void* a){ (void)a; void* q[50]; for(int i=0;i<50;i++){ q[i]=mi_malloc(100+i*37); if(q[i]) memset(q[i],3,100+i*37);} for(int i=0;i<50;i+=2) mi_free(q[i]); return NULL; }
int main(void){
  static const size_t sz[] = { 8, 40, 200, 1000, 5000, 20000, 70000, 300000, 2000000, 20000000, 40000000 };
  int bad = 0;
  for (int round=0; round<3; round++){
    for (int i=0;i<N;i++){ size_t s = sz[(i*7+round)%11] + (i%13); 
      if (i%97==0) b[i] = mi_malloc_aligned(s, (size_t)64*1024*1024); else if (i%11==0) b[i] = mi_zalloc(s); else if (i%17==0) b[i]=mi_malloc_aligned(s, 4096); else b[i] = mi_malloc(s);
      bs[i]=s; if (b[i]) memset(b[i], (unsigned char)(i|1), s); }
    pthread_t t; if (pthread_create(&t,NULL,thr,NULL)==0) pthread_join(t,NULL);
    for (int i=0;i<N;i+=3){ if (b[i]) { unsigned char* r = mi_realloc(b[i], bs[i]*2+1); if (r) { b[i]=r; memset(r+bs[i], (unsigned char)(i|1), bs[i]+1); bs[i]=bs[i]*2+1; } } }
    for (int i=0;i<N;i++) if (b[i]) { for (size_t k=0;k<bs[i];k+= (bs[i]>4096? 997:1)) if (b[i][k] != (unsigned char)(i|1)) { bad++; break; } }
    for (int i=0;i<N;i++){ mi_free(b[i]); b[i]=NULL; }
    mi_collect(round==1);
  }
  mi_collect(true);
  long (*cnt)(void) = (long(*)(void))dlsym(RTLD_DEFAULT,"shim_count");
  fprintf(stderr,"workload done bad=%d oscalls=%ld\n", bad, cnt?cnt():-1);
  return bad?3:0; }
