// discovery stress (triage tool): threads hand blocks to each other, exit with live blocks, use private heaps
#include <mimalloc.h>
#include <stdio.h>
#include <stdlib.h>
#include <string.h>
#include <stdint.h>
#include <stdatomic.h>
#include <pthread.h>

#define SLOTS 4096
static _Atomic(uintptr_t) slots[SLOTS];
static _Atomic(long) errors;
static int NTHREADS = 8, ROUNDS = 20, OPS = 20000;
typedef struct { uint64_t magic; uint64_t size; uint64_t seed; uint64_t zero; } hdr_t;
#define MAGIC 0x5ca1ab1e0ddba11ULL
static uint64_t rnd(uint64_t* s){ *s ^= *s << 13; *s ^= *s >> 7; *s ^= *s << 17; return *s; }
static size_t rnd_size(uint64_t* s){ uint64_t r = rnd(s)%100; if (r<60) return rnd(s)%512; if (r<85) return rnd(s)%8192; if (r<97) return rnd(s)%(200*1024); if (r<99) return rnd(s)%(3*1024*1024); return 17*1024*1024 + rnd(s)%(8*1024*1024); }
static void fill(unsigned char* p, size_t size, uint64_t seed, int zero){
  hdr_t* h = (hdr_t*)p; if (zero) { for (size_t i=0;i<size;i++) if (p[i]!=0) { atomic_fetch_add(&errors,1); fprintf(stderr,"ERR zero alloc not zero at %zu/%zu\n", i, size); break; } }
  h->magic = MAGIC; h->size = size; h->seed = seed; h->zero = zero;
  for (size_t i=sizeof(hdr_t); i<size; i += (size>65536? 509:1)) p[i] = (unsigned char)(seed + i*7);
}
static void verify(unsigned char* p, const char* who){
  hdr_t* h = (hdr_t*)p; if (h->magic != MAGIC) { atomic_fetch_add(&errors,1); fprintf(stderr,"ERR %s: bad magic at %p\n", who, p); return; }
  size_t size = h->size; uint64_t seed = h->seed;
  if (mi_usable_size(p) < size) { atomic_fetch_add(&errors,1); fprintf(stderr,"ERR %s: usable %zu < %zu\n", who, mi_usable_size(p), size); }
  for (size_t i=sizeof(hdr_t); i<size; i += (size>65536? 509:1)) if (p[i] != (unsigned char)(seed + i*7)) { atomic_fetch_add(&errors,1); fprintf(stderr,"ERR %s: content of %p size %zu changed at %zu\n", who, p, size, i); return; }
}
static void* alloc_block(uint64_t* s, mi_heap_t* heap){
  size_t n = sizeof(hdr_t) + rnd_size(s); int zero = 0; unsigned char* p;
  switch (rnd(s)%6){ case 0: p = mi_zalloc(n); zero=1; break; case 1: p = mi_malloc_aligned(n, (size_t)1<<(rnd(s)%16)); break;
    case 2: p = (heap? mi_heap_malloc(heap,n) : mi_malloc(n)); break; case 3: p = mi_calloc(1,n); zero=1; break; default: p = mi_malloc(n); }
  if (!p) return NULL; fill(p, n, rnd(s), zero); return p;
}
static void* worker(void* arg){
  uint64_t s = (uint64_t)(uintptr_t)arg * 0x9E3779B97F4A7C15ULL + 12345;
  mi_heap_t* heap = (rnd(&s)%2 ? mi_heap_new() : NULL);
  void* priv[64]; int np = 0;     // blocks in the private heap (never handed out if the heap is destroyed)
  for (int op=0; op<OPS; op++){
    uint64_t r = rnd(&s)%100;
    if (r < 50) { // allocate and publish (never from a destroyable private heap)
      unsigned char* p = alloc_block(&s, NULL); if (!p) continue;
      uintptr_t old = atomic_exchange(&slots[rnd(&s)%SLOTS], (uintptr_t)p);
      if (old) { verify((unsigned char*)old, "free-xchg"); mi_free((void*)old); }
    } else if (r < 85) { // take and free or realloc
      uintptr_t old = atomic_exchange(&slots[rnd(&s)%SLOTS], (uintptr_t)0);
      if (old) { verify((unsigned char*)old, "take");
        if (rnd(&s)%4==0) { hdr_t h = *(hdr_t*)old; size_t n = sizeof(hdr_t) + rnd_size(&s); unsigned char* q = mi_realloc((void*)old, n);
          if (q) { size_t keep = (h.size < n ? h.size : n); hdr_t* hq = (hdr_t*)q; if (hq->magic!=MAGIC || hq->seed!=h.seed) { atomic_fetch_add(&errors,1); fprintf(stderr,"ERR realloc lost header\n"); }
            for (size_t i=sizeof(hdr_t); i<keep; i+= (h.size>65536?509:1)) if (q[i] != (unsigned char)(h.seed + i*7)) { atomic_fetch_add(&errors,1); fprintf(stderr,"ERR realloc lost content\n"); break; }
            fill(q, n, rnd(&s), 0); uintptr_t o2 = atomic_exchange(&slots[rnd(&s)%SLOTS], (uintptr_t)q); if (o2) { verify((unsigned char*)o2,"free-xchg2"); mi_free((void*)o2); } }
          else mi_free((void*)old);
        } else mi_free((void*)old); }
    } else if (r < 95 && heap) { // private heap traffic
      if (np < 64) { size_t n = sizeof(hdr_t)+rnd_size(&s)%4096; unsigned char* p = mi_heap_malloc(heap, n); if (p) { fill(p,n,rnd(&s),0); priv[np++] = p; } }
      else { int i = rnd(&s)%np; verify(priv[i],"priv"); mi_free(priv[i]); priv[i] = priv[--np]; }
    } else if (r < 97) mi_collect(rnd(&s)%4==0);
  }
  if (heap) { for (int i=0;i<np;i++) verify(priv[i],"priv-end");
    if (rnd(&s)%2) mi_heap_destroy(heap); else { // delete: blocks survive; publish them
      mi_heap_delete(heap); for (int i=0;i<np;i++){ uintptr_t old = atomic_exchange(&slots[rnd(&s)%SLOTS], (uintptr_t)priv[i]); if (old) { verify((unsigned char*)old,"free-xchg3"); mi_free((void*)old); } } } }
  return NULL;
}
typedef struct { long blocks; } cnt_t;
static bool count_visit(const mi_heap_t* h, const mi_heap_area_t* a, void* block, size_t bs, void* arg){ (void)h;(void)a;(void)bs; if (block) ((cnt_t*)arg)->blocks++; return true; }
int main(int argc, char** argv){
  if (argc>1) NTHREADS = atoi(argv[1]); if (argc>2) ROUNDS = atoi(argv[2]); if (argc>3) OPS = atoi(argv[3]);
  for (int round=0; round<ROUNDS; round++){
    pthread_t t[64];
    for (int i=0;i<NTHREADS;i++) pthread_create(&t[i],NULL,worker,(void*)(uintptr_t)(round*131+i+1));
    for (int i=0;i<NTHREADS;i++) pthread_join(t[i],NULL);
    // all worker threads are gone: their blocks must still be valid
    for (int i=0;i<SLOTS;i++){ uintptr_t p = atomic_load(&slots[i]); if (p) verify((unsigned char*)p, "after-exit"); }
    if (round%3==2) { for (int i=0;i<SLOTS;i+=2){ uintptr_t p = atomic_exchange(&slots[i],0); if (p) mi_free((void*)p); } mi_collect(true); }
  }
  for (int i=0;i<SLOTS;i++){ uintptr_t p = atomic_exchange(&slots[i],0); if (p) { verify((unsigned char*)p,"final"); mi_free((void*)p); } }
  mi_collect(true);
  cnt_t c = {0}; mi_heap_visit_blocks(mi_heap_get_default(), true, &count_visit, &c);
  cnt_t ca = {0}; if (mi_option_is_enabled(mi_option_visit_abandoned)) mi_abandoned_visit_blocks(mi_subproc_main(), -1, true, &count_visit, &ca);
  fprintf(stderr,"done errors=%ld main-heap blocks left=%ld abandoned blocks left=%ld\n", atomic_load(&errors), c.blocks, ca.blocks);
  return atomic_load(&errors)!=0;
}
