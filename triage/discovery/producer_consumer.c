#include <mimalloc.h>
#include <stdio.h>
#include <string.h>
#include <stdlib.h>
#include <pthread.h>
#include <stdatomic.h>
#include <unistd.h>
#define RING 1024
static _Atomic(void*) ring[RING]; static _Atomic(int) stop; static _Atomic(long) produced, consumed;
static void* consumer(void* a){ (void)a; unsigned i=0; while(!atomic_load(&stop)){ void* p = atomic_exchange(&ring[i%RING], NULL); if (p) { mi_free(p); atomic_fetch_add(&consumed,1);} i++; } return NULL; }
static long rss_kib(void){ FILE* f=fopen("/proc/self/statm","r"); unsigned long sz,res; if (fscanf(f,"%lu %lu",&sz,&res)!=2) res=0; fclose(f); return res*4; }
typedef struct { long areas; long used; } cnt_t;
static bool visit(const mi_heap_t* h, const mi_heap_area_t* a, void* b, size_t bs, void* arg){ (void)h;(void)bs; cnt_t* c=(cnt_t*)arg; if (b==NULL) { c->areas++; c->used += a->used; } return true; }
int main(int argc,char**argv){ long total = (argc>1? atol(argv[1]) : 3000000); size_t maxsz = (argc>2? atol(argv[2]): 256);
  pthread_t t; pthread_create(&t,NULL,consumer,NULL); unsigned i=0; unsigned long long s=12345; long peak=0;
  for (long n=0;n<total;n++){ s = s*6364136223846793005ULL+1; size_t sz = 16 + (s>>33)%maxsz; void* p = mi_malloc(sz); memset(p,1,sz);
    void* expected = NULL; int spins=0; while (!atomic_compare_exchange_weak(&ring[i%RING], &expected, p)) { expected=NULL; i++; if (++spins > 4*RING) { usleep(50); spins=0; } } i++; atomic_fetch_add(&produced,1);
    if ((n % 500000)==0) { long r = rss_kib(); if (r>peak) peak=r; fprintf(stderr,"n=%ld rss=%ld KiB\n", n, r); } }
  atomic_store(&stop,1); pthread_join(t,NULL);
  for (int k=0;k<RING;k++){ void* p = atomic_exchange(&ring[k],NULL); if (p) mi_free(p); }
  mi_collect(true); cnt_t c={0,0}; mi_heap_visit_blocks(mi_heap_get_default(), false, &visit, &c);
  fprintf(stderr,"done produced=%ld consumed=%ld areas left=%ld used=%ld rss=%ld KiB\n", atomic_load(&produced), atomic_load(&consumed), c.areas, c.used, rss_kib());
  return 0; }
