#include <mimalloc.h>
#include <stdio.h>
#include <string.h>
#include <stdlib.h>
#include <pthread.h>
#include <stdint.h>
#define T 4
#define N 120
static unsigned char* live[T*N]; static size_t lsz[T*N];
static void* thr(void* a){ int t=(int)(uintptr_t)a; for(int i=0;i<N;i++){ size_t s = (i%40==39? 20*1024*1024 : (i%7==0? 70000 : 24+i*37)); unsigned char* p = (i%5==0? mi_malloc_aligned(s,256): mi_malloc(s)); memset(p,7,s); live[t*N+i]=p; lsz[t*N+i]=s; }
  for(int i=0;i<N;i+=3){ mi_free(live[t*N+i]); live[t*N+i]=NULL; } return NULL; }
typedef struct { long blocks, areas, bad, stop_after; } v_t;
static bool vis(const mi_heap_t* h, const mi_heap_area_t* a, void* b, size_t bs, void* arg){ (void)h;(void)a; v_t* v=(v_t*)arg; if(!b){ v->areas++; return true; }
  int found=0; for(int i=0;i<T*N;i++) if (live[i] && (unsigned char*)b <= live[i] && live[i] < (unsigned char*)b+bs && live[i]+lsz[i] <= (unsigned char*)b+bs) found++;
  if (found!=1) v->bad++; v->blocks++; if (v->stop_after && v->blocks>=v->stop_after) return false; return true; }
int main(void){ pthread_t t[T]; for(int i=0;i<T;i++) pthread_create(&t[i],NULL,thr,(void*)(uintptr_t)i); for(int i=0;i<T;i++) pthread_join(t[i],NULL);
  long expect=0; for(int i=0;i<T*N;i++) if(live[i]) expect++;
  v_t v={0,0,0,0}; bool ok = mi_abandoned_visit_blocks(mi_subproc_main(), -1, true, vis, &v);
  printf("abandoned visit ok=%d blocks=%ld expected=%ld unmatched=%ld areas=%ld\n", ok, v.blocks, expect, v.bad, v.areas);
  v_t w={0,0,0,5}; ok = mi_abandoned_visit_blocks(mi_subproc_main(), -1, true, vis, &w); printf("early stop: ok=%d blocks=%ld\n", ok, w.blocks);
  v_t v2={0,0,0,0}; mi_abandoned_visit_blocks(mi_subproc_main(), -1, true, vis, &v2); printf("second full visit blocks=%ld unmatched=%ld\n", v2.blocks, v2.bad);
  int bad=0; for(int i=0;i<T*N;i++) if(live[i]) { for(size_t k=0;k<lsz[i];k+=(lsz[i]>65536?4099:1)) if(live[i][k]!=7){bad++;break;} mi_free(live[i]); }
  mi_collect(true); v_t v3={0,0,0,0}; mi_abandoned_visit_blocks(mi_subproc_main(), -1, true, vis, &v3); printf("content bad=%d; after free-all abandoned blocks=%ld areas=%ld\n", bad, v3.blocks, v3.areas);
  return 0; }
