#include <cstdio>
#include <cstdint>
#include <cstdlib>
#include <cstring>
#include <cerrno>
#include <new>
#include <malloc.h>
#include <dlfcn.h>
#include <limits.h>
#include <unistd.h>
typedef bool (*inheap_t)(const void*);
static inheap_t inheap; static int bad=0;
#define CHK(name,p) do { void* _p=(void*)(p); if (!_p || !inheap(_p)) { printf("NOT-MIMALLOC: %s -> %p\n", name, _p); bad++; } } while(0)
int main(){
  inheap = (inheap_t)dlsym(RTLD_DEFAULT,"mi_is_in_heap_region"); if(!inheap){ printf("mimalloc not preloaded\n"); return 2; }
  void* p;
  p = malloc(100); CHK("malloc",p); p = realloc(p, 5000); CHK("realloc",p); free(p);
  p = calloc(10,10); CHK("calloc",p); free(p);
  p=NULL; int e = posix_memalign(&p, 64, 100); CHK("posix_memalign",p); if (e||((uintptr_t)p%64)) {printf("posix_memalign bad\n");bad++;} free(p);
  void* keep=(void*)1; e = posix_memalign(&keep, 3, 100); if (e!=EINVAL || keep!=(void*)1) { printf("posix_memalign EINVAL contract broken e=%d\n",e); bad++; }
  p = aligned_alloc(128, 256); CHK("aligned_alloc",p); p = realloc(p, 10); CHK("realloc(aligned)",p); free(p);
  p = memalign(256, 100); CHK("memalign",p); free(p);
  p = valloc(100); CHK("valloc",p); if ((uintptr_t)p % sysconf(_SC_PAGESIZE)) {printf("valloc unaligned\n");bad++;} free(p);
  p = pvalloc(100); CHK("pvalloc",p); if (malloc_usable_size(p) < (size_t)sysconf(_SC_PAGESIZE)) {printf("pvalloc small\n");bad++;} free(p);
  p = reallocarray(NULL, 10, 10); CHK("reallocarray",p); errno=0; void* q = reallocarray(p, (size_t)-1, 16); if (q!=NULL || errno!=ENOMEM) {printf("reallocarray overflow contract q=%p errno=%d\n",q,errno);bad++;} free(p);
  char* s = strdup("hello"); CHK("strdup",s); free(s); s = strndup("hello",3); CHK("strndup",s); if (strcmp(s,"hel")) bad++; free(s);
  s = realpath("/tmp", NULL); CHK("realpath",s); free(s);
  p = malloc(77); if (malloc_usable_size(p) < 77) {printf("malloc_usable_size\n");bad++;} free(p);
  int* i1 = new int(5); CHK("new",i1); delete i1;
  int* a1 = new int[100]; CHK("new[]",a1); delete[] a1;
  int* i2 = new(std::nothrow) int(5); CHK("new nothrow",i2); ::operator delete(i2, std::nothrow);
  struct alignas(64) A { char x[64]; }; A* a = new A; CHK("new aligned",a); if ((uintptr_t)a%64) bad++; delete a;
  A* aa = new A[3]; CHK("new[] aligned",aa); delete[] aa;
  A* an = new(std::nothrow) A; CHK("new aligned nothrow",an); ::operator delete(an, std::align_val_t(64), std::nothrow);
  void* sz = ::operator new(100); CHK("operator new",sz); ::operator delete(sz, (size_t)100);
  void* sza = ::operator new(100, std::align_val_t(32)); CHK("operator new align",sza); ::operator delete(sza, (size_t)100, std::align_val_t(32));
  // cross: new -> free, malloc -> delete
  p = ::operator new(50); free(p); p = malloc(50); ::operator delete(p);
  printf("override test done bad=%d\n", bad); return bad; }
