#include <mimalloc.h>
#include <stdio.h>
#include <string.h>
#include <stdlib.h>
#include <pthread.h>
#include <stdint.h>
static mi_arena_id_t aid; static char* as; static size_t asz; static int bad;
static int inside(void* p){ return ((char*)p >= as && (char*)p < as+asz); }
static void* thr(void* a){ (void)a; mi_heap_t* h = mi_heap_new_in_arena(aid); for(int i=0;i<300;i++){ void* p = mi_heap_malloc(h, 50+i*13); if (p && !inside(p)) { bad++; fprintf(stderr,"arena-heap block outside arena\n"); } }
  for(int i=0;i<300;i++){ void* p = mi_malloc(50+i*13); if (p && inside(p)) { bad++; fprintf(stderr,"thread default-heap block inside exclusive arena\n"); break; } }
  return NULL; }
int main(void){
  void* region = NULL; int e = mi_reserve_os_memory_ex(160*1024*1024UL, false, false, true, &aid); as = mi_arena_area(aid,&asz);
  fprintf(stderr,"reserve err=%d arena %p size %zu MiB\n", e, as, asz>>20); (void)region;
  mi_heap_t* h = mi_heap_new_in_arena(aid);
  size_t total=0; int n=0, nulls=0; 
  for (int i=0;i<100000;i++){ size_t s = (i%10==0? 200000 : 1000+i%5000); void* p = mi_heap_malloc(h, s); if (!p) { nulls++; if (nulls>20) break; continue; } if (!inside(p)) { bad++; fprintf(stderr,"block %p outside arena (size %zu)\n", p, s); break; } memset(p,1,s); total+=s; n++; }
  fprintf(stderr,"arena heap: %d blocks, %zu MiB, then NULL x%d\n", n, total>>20, nulls);
  void* hu = mi_heap_malloc(h, 40*1024*1024); if (hu && !inside(hu)) { bad++; fprintf(stderr,"huge block outside arena\n"); }
  void* ha = mi_heap_malloc_aligned(h, 1000, 64*1024*1024); if (ha && !inside(ha)) { bad++; fprintf(stderr,"huge-aligned block outside arena\n"); }
  for (int i=0;i<20000;i++){ void* p = mi_malloc(100 + i%3000); if (inside(p)) { bad++; fprintf(stderr,"default heap block inside exclusive arena\n"); break; } }
  pthread_t t[4]; for(int i=0;i<4;i++) pthread_create(&t[i],NULL,thr,NULL); for(int i=0;i<4;i++) pthread_join(t[i],NULL);
  mi_collect(true);
  for (int i=0;i<50000;i++){ void* p = mi_malloc(50 + (i*13)%4000); if (inside(p)) { bad++; fprintf(stderr,"after thread exit + collect: default heap block inside exclusive arena\n"); break; } }
  // managed region with odd alignment
  size_t rsz = 100*1024*1024; char* raw = malloc(rsz+4096); mi_arena_id_t aid2; 
  if (mi_manage_os_memory_ex(raw+123, rsz, true, false, false, -1, true, &aid2)) { size_t s2; char* a2 = mi_arena_area(aid2,&s2); if (a2 < raw+123 || a2+s2 > raw+123+rsz) { bad++; fprintf(stderr,"managed arena [%p,%p) exceeds given region [%p,%p)\n", a2, a2+s2, raw+123, raw+123+rsz);} 
    mi_heap_t* h2 = mi_heap_new_in_arena(aid2); for(int i=0;i<2000;i++){ char* p = mi_heap_malloc(h2, 30000); if (!p) break; if (p < raw+123 || p+30000 > raw+123+rsz) { bad++; fprintf(stderr,"block outside managed region\n"); break; } memset(p,1,30000);} }
  fprintf(stderr,"c15 discovery bad=%d\n", bad); return bad; }
