// C04 triage replay: after a *moving* mi_rezalloc the slack [newsize, usable) of the new block is not
// zeroed; a later in-place growth (newsize2 <= usable) then exposes stale bytes of a previously freed block.
#include <mimalloc.h>
#include <stdio.h>
#include <string.h>
#define N 3000
static void* d[N];
int main(void){
  for(int i=0;i<N;i++){ d[i]=mi_malloc(200); memset(d[i],0xAA,mi_usable_size(d[i])); }
  for(int i=0;i<N;i++) mi_free(d[i]);
  for(int i=0;i<400;i++){ d[i]=mi_malloc(200); }            // consume the never-used blocks of the retained page
  unsigned char* p = (unsigned char*)mi_zalloc(100);
  unsigned char* q = (unsigned char*)mi_rezalloc(p, 200);   // moves: zeroes [104,200) only
  unsigned char* r = (unsigned char*)mi_rezalloc(q, 220);   // in place (220 <= usable 224)
  int bad=0; for(int i=200;i<220;i++) if (r[i]!=0) bad++;
  fprintf(stderr,"usable=%zu moved=%d nonzero bytes in [200,220): %d\n", mi_usable_size(q), r!=q, bad);
  return bad!=0; }
