#include <mimalloc.h>
#include <stdio.h>
#include <pthread.h>
#include <stdint.h>
static mi_arena_id_t aid; 
static void* thr(void* a){ mi_heap_t* h = mi_heap_new_in_arena(aid); void* p = mi_heap_malloc(h, 100); fprintf(stderr,"thread block %p\n", p); return p; }
int main(){
  int err = mi_reserve_os_memory_ex(256*1024*1024UL, false, false, true /*exclusive*/, &aid);
  size_t asz; char* astart = (char*)mi_arena_area(aid,&asz);
  fprintf(stderr,"err=%d arena %p..%p\n", err, astart, astart+asz);
  pthread_t t; void* r; pthread_create(&t,NULL,thr,NULL); pthread_join(t,&r);
  mi_collect(true);
  int inside=0;
  for(int i=0;i<2000;i++){ char* q = (char*)mi_malloc(100); if (q>=astart && q<astart+asz) { inside++; if(inside==1) fprintf(stderr,"default-heap block %p INSIDE exclusive arena\n", q);} }
  fprintf(stderr,"inside=%d\n", inside);
  return 0; }
