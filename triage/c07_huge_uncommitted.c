#include <mimalloc.h>
#include <stdio.h>
#include <string.h>
int main(){ void* s = mi_malloc(100); (void)s;
  char* p = (char*)mi_malloc(100*1024*1024);
  fprintf(stderr,"huge p=%p\n", p);
  if (p) { memset(p, 1, 100*1024*1024); fprintf(stderr,"wrote ok\n"); }
  return 0; }
