// C20 triage replay: boolean keywords are recognised with strstr(LIST, value), i.e. the value is
// the needle: any substring of "1;TRUE;YES;ON" / "0;FALSE;NO;OFF" (e.g. "RUE", "E;Y", ";", "F", "O")
// is accepted instead of leaving the default in place.
//   MIMALLOC_SHOW_STATS=RUE MIMALLOC_PURGE_DELAY="E;Y" MIMALLOC_ARENA_RESERVE=F ./a.out
//   -> show_stats=1 purge_delay=1 arena_reserve=0   (defaults: 0, 10, 1048576)
#include <mimalloc.h>
#include <stdio.h>
int main(void){ void* p = mi_malloc(10); mi_free(p);
  printf("show_stats=%ld purge_delay=%ld arena_reserve=%ld\n", mi_option_get(mi_option_show_stats),
         mi_option_get(mi_option_purge_delay), mi_option_get(mi_option_arena_reserve));
  return 0; }
