#include <mimalloc.h>
#include <stdio.h>
#include <pthread.h>
#include <string.h>
#include <stdint.h>
#include <stdlib.h>
static unsigned char* live[1000];
static void* thr(void* a){ for(int i=0;i<1000;i++){ live[i]=mi_malloc(100); memset(live[i],0x5A,100);} return NULL; }
static int cmp(const void*a,const void*b){ uintptr_t x=*(uintptr_t*)a,y=*(uintptr_t*)b; return x<y?-1:x>y; }
int main(){
  pthread_t t; pthread_create(&t,NULL,thr,NULL); pthread_join(t,NULL);
  mi_heap_t* h = mi_heap_new();
  for(int i=0;i<40;i++){ void* p = mi_heap_malloc(h, 1024*1024); memset(p,1,1024*1024); }
  int owned=0; for(int i=0;i<1000;i++) if (mi_heap_contains_block(h, live[i])) owned++;
  fprintf(stderr,"thread blocks attributed to the mi_heap_new() heap: %d\n", owned);
  mi_heap_destroy(h);
  qsort(live,1000,sizeof(live[0]),cmp);
  int handed_again=0;
  for(int i=0;i<3000000;i++){ unsigned char* q=mi_malloc(100); if (bsearch(&q,live,1000,sizeof(live[0]),cmp)) handed_again++; }
  fprintf(stderr,"live blocks of the dead thread handed out again after mi_heap_destroy: %d\n", handed_again);
  return 0; }
