"""C04 — zeroing allocation returns zeros, also when growing (DESIGN §4 C04). Level: other.

Decided: full-block zeroing in the primitive (R1), the constant `true` reaches the primitive (or an explicit zero-afterwards) from
every member of the zero family on every path (R2), the zero flags of a page (R3), the grown tail of a moving re-allocation is
zeroed up to the *usable* size of the new block (R4), huge aligned blocks are zeroed after alignment (R5).
Not decided: that memory reported zero by the OS/arena is zero; byte contents in general.
"""
import re
import rl
from facts import AnalysisBroken

LEVEL = "other"
BASE = {"_mi_page_malloc_zero": 3}
MEMZERO = ("_mi_memzero", "_mi_memzero_aligned")
USABLE = ("mi_usable_size", "_mi_usable_size", "mi_page_usable_block_size", "mi_page_block_size")


def bool_params(f):
    return [k for k, p in enumerate(f.d["params"]) if p["t"].replace("const ", "") == "_Bool"]


def ztrue_edges(f, T):
    """edge filter: paths on which the parameters in T (indices) are true"""
    ds = {f.param_id(k) for k in T}
    cfg = f.cfg

    def ok(lab, p, q):
        return not any(rl.var_of(f, e) in ds and pol is False for e, pol in cfg.facts(lab))
    return ok


def null_edge(f, d):
    """edge establishes that local d is NULL"""
    cfg = f.cfg
    return lambda lab: any(rl.fact_null(f, e, pol, rl.is_var(f, d)) for e, pol in cfg.facts(lab))


class ZeroFlow:
    def __init__(self, prog):
        self.prog = prog
        self.memo = {}
        self.visited = set()
        self.afterwards = []   # (function, call) sites accepted because the block is zeroed explicitly afterwards
        self.inplace = []

    def zeroed(self, fname, T, depth=0):
        """list of problems; empty = every value returned by fname (with the parameters T true) is NULL or zeroed memory"""
        key = (fname, frozenset(T))
        if key in self.memo:
            return self.memo[key]
        self.memo[key] = []  # cycles: assume ok (the cycle's base is BASE)
        f = self.prog.fns.get(fname)
        if f is None:
            self.memo[key] = ["%s is not defined in this library" % fname]
            return self.memo[key]
        self.visited.add(fname)
        if depth > 12:
            self.memo[key] = ["call chain too deep at %s" % fname]
            return self.memo[key]
        cfg = f.cfg
        eok = ztrue_edges(f, T)
        seen = cfg.reach([cfg.entry], edge_ok=eok)
        probs = []
        for r in f.all(kind="ReturnStmt"):
            if cfg.pt(r) not in seen or "val" not in f.nodes[r]:
                continue
            probs += self.value(f, f.nodes[r]["val"], r, T, depth, set())
        self.memo[key] = probs
        return probs

    def value(self, f, v, ret, T, depth, seenvars, defsite=None):
        j = f.strip(v)
        n = f.nodes[j]
        k = n["k"]
        if f.cv(v) == 0:
            return []
        if k == "ConditionalOperator":
            d = rl.var_of(f, n["cond"])
            if d is not None and d in {f.param_id(x) for x in T}:
                return self.value(f, n["then"], ret, T, depth, seenvars, defsite)
            return self.value(f, n["then"], ret, T, depth, seenvars, defsite) + self.value(f, n["else"], ret, T, depth, seenvars, defsite)
        if k == "BinaryOperator" and n["op"] in ("+", "-"):
            return self.value(f, n["c"][0], ret, T, depth, seenvars, defsite)
        if k in ("CStyleCastExpr", "ImplicitCastExpr"):
            return self.value(f, n["c"][0], ret, T, depth, seenvars, defsite)
        if k == "DeclRefExpr":
            if n["dk"] == "parm":
                self.inplace.append((f.name, f.loc(ret)))
                return []   # in-place: the caller's own block (zero family invariant re-established by R4)
            if n["dk"] == "local":
                if n["d"] in seenvars:
                    return []
                out = []
                defs = [(a, rhs, op) for a, rhs, op in f.var_defs(n["d"]) if rhs is not None]
                if not defs:
                    return ["%s: returned variable %s has no definition" % (f.where(ret), n["n"])]
                for a, rhs, op in defs:
                    # only definitions that can reach this return on a zero-true path
                    if not f.cfg.reaches(f.cfg.pt(a), f.cfg.pt(ret), edge_ok=ztrue_edges(f, T)):
                        continue
                    out += self.value(f, rhs, ret, T, depth, seenvars | {n["d"]}, defsite=(a, n["d"]))
                return out
            return ["%s: returns %s" % (f.where(ret), f.text(j))]
        if k == "CallExpr":
            g = n.get("callee")
            if g is None:
                return ["%s: indirect call %s" % (f.where(j), f.text(j))]
            gf = self.prog.fns.get(g)
            TG = set()
            if gf is not None:
                for kk in bool_params(gf):
                    if kk < len(n["args"]):
                        a = n["args"][kk]
                        av = rl.var_of(f, a)
                        init = rl.single_def(f, av) if av is not None and av not in f.pids else None
                        if f.cv(a) == 1 or av in {f.param_id(x) for x in T} or (init is not None and f.cv(init) == 1):
                            TG.add(kk)
            if g in BASE:
                sub = [] if BASE[g] in TG else ["%s: %s is called without the zero flag" % (f.where(j), g)]
            elif gf is None:
                sub = ["%s: %s is not part of this library" % (f.where(j), g)]
            else:
                sub = self.zeroed(g, TG, depth + 1)
            if not sub:
                return []
            # zero afterwards: between this call and the return every (non-NULL) path clears the block explicitly
            cfg = f.cfg
            eok = ztrue_edges(f, T)
            dvar = defsite[1] if defsite else None

            def edge_ok(lab, p, q):
                if not eok(lab, p, q):
                    return False
                if dvar is not None and null_edge(f, dvar)(lab):
                    return False
                return True
            def full_zero(h, e):
                return rl.is_call(h, e, MEMZERO) and any(rl.is_call(h, x, USABLE) or (h.nodes[x]["k"] == "MemberExpr" and h.nodes[x]["fld"] == "block_size")
                                                         for x in h.walk(h.nodes[e]["args"][1]))

            def thr(e):
                if full_zero(f, e):
                    return True
                # the same memzero moved into a private helper that receives the block and runs it on all of its paths
                h = self.prog.fns.get(f.nodes[e].get("callee")) if f.nodes[e]["k"] == "CallExpr" else None
                if h is not None and h.d.get("static") and h.file == f.file and dvar is not None and any(rl.var_of(f, a) == dvar for a in f.nodes[e]["args"]):
                    return h.cfg.must_pass([h.cfg.entry], h.cfg.exit_points(), lambda x: full_zero(h, x)) is None
                return False
            w = cfg.must_pass([cfg.after(j)], [cfg.pt(ret)], thr, edge_ok=edge_ok)
            if w is None:
                self.afterwards.append((f.name, g, f.loc(j)))
                return []
            return ["%s: block from %s(...) is returned on a zero path without the zero flag and without an explicit full-size memzero (path lines %s); callee: %s"
                    % (f.where(j), g, w, "; ".join(sub[:2]))]
        return ["%s: cannot classify returned value %s" % (f.where(ret), f.text(j))]


def family(prog):
    names = set()
    for nm, ps in prog.protos.items():
        if any(p["file"].endswith("include/mimalloc.h") for p in ps) and re.search(r"(zalloc|calloc)", nm) and nm.startswith("mi_"):
            names.add(nm)
    return sorted(names)


def r1(ctx, prog):
    R = ctx.rule("C04.R1", "the primitive zeroes the full block: on the `zero` edge either free_is_zero (then only block->next is cleared) or "
                           "memzero(block, page->block_size - MI_PADDING_SIZE) — never the requested size")
    f = prog.fn("_mi_page_malloc_zero")
    cfg = f.cfg
    zp = f.param_id(3)
    starts = [q for p, q, e, pol in rl.edges_with_fact(f, lambda e, pol: pol and rl.var_of(f, e) == zp)]
    if not starts:
        ctx.fail(R, f.where(), "no branch on the zero parameter", key="C04.R1:nobranch")
    else:
        def full_zero(e):
            if not rl.is_call(f, e, MEMZERO + ("memset",)):
                return False
            ln = f.nodes[e]["args"][-1]
            t = rl.canon(f, ln)      # a local that names the length is expanded
            return "block_size" in t and "$2" not in t
        def not_fiz(lab, p, q):
            return not any(pol and rl.field_is(f, e, "free_is_zero") for e, pol in cfg.facts(lab))
        zfalse = ztrue_edges(f, [3])
        def thr(e):
            return full_zero(e) or (rl.is_call(f, e, "_mi_malloc_generic") and rl.var_of(f, f.nodes[e]["args"][2]) == zp)
        w = cfg.must_pass([cfg.entry], cfg.exit_points(), thr, edge_ok=lambda lab, p, q: not_fiz(lab, p, q) and zfalse(lab, p, q))
        ctx.check(R, w is None, f.where(), "zero edge: memzero over page->block_size (minus padding) on every path unless page->free_is_zero", key="C04.R1:full", witness=w)
        # free_is_zero edge clears the link word
        fz = [q for p, q, e, pol in rl.edges_with_fact(f, lambda e, pol: pol and rl.field_is(f, e, "free_is_zero"))]
        fz = [q for q in fz if any(cfg.reaches(s, q) for s in starts)]
        okz = bool(fz) and all(cfg.must_pass([q], cfg.exit_points(), lambda e: f.nodes[e]["k"] == "BinaryOperator" and f.nodes[e]["op"] == "=" and
                                             rl.field_is(f, f.nodes[e]["c"][0], "next") and f.cv(f.nodes[e]["c"][1]) == 0) is None for q in fz)
        ctx.check(R, okz, f.where(), "free_is_zero edge: block->next = 0 (the only non-zero word of a zero free block)", key="C04.R1:next")
        for c in f.calls(MEMZERO):
            ln = rl.arg(f, c, 1)
            ctx.check(R, "$2" not in rl.canon(f, ln), f.where(c), "memzero length %s does not depend on the request size" % f.text(ln), key="C04.R1:len")
    g = prog.fn("_mi_malloc_generic")
    zf = ZeroFlow(prog)
    probs = zf.zeroed("_mi_malloc_generic", {2})
    ctx.check(R, not probs, g.where(), "_mi_malloc_generic(zero=true) returns NULL, a block from the zeroing primitive, or a huge block zeroed afterwards over its usable size"
              + ("" if not probs else ": " + probs[0]), key="C04.R1:generic")
    for c in g.calls(MEMZERO):
        ln = rl.arg(g, c, 1)
        ctx.check(R, rl.is_call(g, g.strip(ln), USABLE), g.where(c), "huge block zeroed over %s" % g.text(ln), key="C04.R1:generic:len")
    ctx.floor(R, 5)


def r2(ctx, prog):
    R = ctx.rule("C04.R2", "every member of the zero family (declared in mimalloc.h, names *zalloc*/*calloc*) returns, on every path, NULL, memory obtained "
                           "with the zero flag set through every intermediate parameter, its own in-place block, or a block zeroed explicitly afterwards")
    fam = family(prog)
    zf = ZeroFlow(prog)
    n = 0
    for nm in fam:
        if nm not in prog.fns:
            continue   # declared but compiled out in this configuration
        n += 1
        probs = zf.zeroed(nm, set())
        ctx.check(R, not probs, prog.fn(nm).where(), "zero flag reaches the primitive on every returning path" + ("" if not probs else ": " + " | ".join(probs[:2])),
                  key="C04.R2:%s" % nm)
    ctx.note("C04.R2: family of %d functions derived from mimalloc.h; %d functions traversed; zero-afterwards sites: %s; in-place returns: %s" % (
        n, len(zf.visited), sorted(set(zf.afterwards)), sorted(set(zf.inplace))))
    allowed_after = {"_mi_malloc_generic", "mi_heap_malloc_zero_aligned_at_overalloc", "_mi_heap_realloc_zero", "mi_heap_realloc_zero_aligned_at"}
    for fn_, g, loc in sorted(set(zf.afterwards)):
        ctx.check(R, fn_ in allowed_after, "%s in %s" % (loc, fn_), "zero-afterwards site is one of the four reviewed ones (DESIGN appendix D3)", key="C04.R2:after:%s" % fn_)
    if n < 27:
        ctx.broke("C04.R2: zero family has %d members, 27 confirmed on the pinned tree" % n)
    ctx.floor(R, 27)


def r3(ctx, prog):
    R = ctx.rule("C04.R3", "page zero flags: recycling local_free into free clears free_is_zero; free_is_zero is otherwise only copied from is_zero_init; "
                           "is_zero_init is only ever cleared or derived from the memory's initially_zero")
    f = prog.fn("_mi_page_free_collect")
    n = 0
    for a, l, rhs, op in f.field_stores("free"):
        if rhs is not None and rl.field_is(f, rhs, "local_free"):
            n += 1
            w = rl.followed_by(f, a, rl.store_field_const(f, "free_is_zero", 0))
            ctx.check(R, w is None, f.where(a), "page->free = page->local_free is followed by free_is_zero = false on every path", key="C04.R3:collect", witness=w)
    if n == 0:
        ctx.broke("C04.R3: no `page->free = page->local_free` store in _mi_page_free_collect")
    for g in prog.fns.values():
        for a, l, rhs, op in g.field_stores("free_is_zero"):
            ok = rhs is not None and (g.cv(rhs) == 0 or rl.field_is(g, rhs, "is_zero_init"))
            ctx.check(R, ok, g.where(a), "free_is_zero = %s" % g.text(rhs), key="C04.R3:fiz:%s" % g.name)
        for a, l, rhs, op in g.field_stores("is_zero_init"):
            stale = rhs is not None and g.mentions_field(rhs, "memid") and any(g.nodes[x]["k"] == "MemberExpr" and g.nodes[x]["arrow"] and g.nodes[x]["fld"] == "memid" for x in g.walk(rhs))
            ok = rhs is not None and g.cv(rhs) == 0
            ctx.check(R, ok, g.where(a), "is_zero_init = %s%s" % (g.text(rhs), " — the segment's memid is written once when the segment is obtained and never updated when its slices are recycled, so a page "
                      "carved from reused slices would be treated as zero" if stale else ("" if ok else " — only the constant false is a reviewed source (nothing in this tree tracks per-span freshness)")),
                      key="C04.R3:izi:%s" % g.name)
    # any other way a block enters page->free (free-list extension) initialises from is_zero_init
    ctx.floor(R, 4)   # one or two recycling stores


def upper_bounded_by(f, e, d, depth=4):
    """expression e is provably <= the (unsigned) variable d: d itself, min(x,d) idioms, e' - c, cond ? e' : 0, single-def locals"""
    j = f.strip(e)
    n = f.nodes[j]
    if f.cv(e) == 0:
        return True
    if n["k"] == "DeclRefExpr":
        if n["d"] == d or f.alias_root(n["d"]) == f.alias_root(d):
            return True
        if depth > 0 and n["dk"] == "local":
            defs = [(a, rhs) for a, rhs, op in f.var_defs(n["d"]) if op != "addr" and not (op == "decl" and rhs is None)]
            if len(defs) == 1:
                return defs[0][1] is not None and upper_bounded_by(f, defs[0][1], d, depth - 1)
            # assigned on several branches (`if (n > s) c = s; else c = n;`): every assignment is bounded by d — by its value,
            # or because it happens on an edge that established value <= d
            def bounded(a, rhs):
                if rhs is None:
                    return False
                if upper_bounded_by(f, rhs, d, depth - 1):
                    return True
                o = rl.var_of(f, rhs)
                return o is not None and f.cfg.guarded(f.cfg.pt(a), lambda e, pol: isinstance(e, int) and rl.establishes(f, e, pol, "<=", rl.is_local(f, o), rl.is_local(f, d))) is None
            return len(defs) > 1 and all(bounded(a, rhs) for a, rhs in defs)
        return False
    if n["k"] == "ConditionalOperator":
        c = rl.cmp_parts(f, n["cond"])
        t, el = n["then"], n["else"]
        # min idiom: (a > b ? b : a) / (a < b ? a : b) where one of a,b is d
        if c is not None:
            op, a, b = c
            ta, tb = f.text(a), f.text(b)
            tt, te = f.text(t), f.text(el)
            if op in (">", ">=") and tt == tb and te == ta and (f.is_ref(a, d) or f.is_ref(b, d)):
                return True
            if op in ("<", "<=") and tt == ta and te == tb and (f.is_ref(a, d) or f.is_ref(b, d)):
                return True
            # guarded subtraction: (x >= k ? x - k : 0)
            if op in (">=", ">") and upper_bounded_by(f, t, d, depth) and upper_bounded_by(f, el, d, depth):
                return True
        return upper_bounded_by(f, t, d, depth) and upper_bounded_by(f, el, d, depth)
    if n["k"] == "BinaryOperator" and n["op"] == "-" and f.cv(n["c"][1]) is not None:
        return upper_bounded_by(f, n["c"][0], d, depth)
    return False


def r4(ctx, prog):
    R = ctx.rule("C04.R4", "moving re-allocation with zero: the zeroed range starts at or below the old usable size and extends to the usable size of "
                           "the NEW block (the in-place path returns p without zeroing, so bytes [requested, usable) must already be zero)")
    for fname in ("_mi_heap_realloc_zero", "mi_heap_realloc_zero_aligned_at"):
        f = prog.fn(fname)
        cfg = f.cfg
        zp = [f.param_id(k) for k in bool_params(f)]
        olds = [dd["d"] for _, dd in rl.var_init_from(f, lambda j: rl.is_call(f, j, ("_mi_usable_size", "mi_usable_size")))]
        if not olds:
            import C05
            try:
                olds = [C05.anchors(f)[2]]
            except AnalysisBroken:
                olds = []
        news = [dd for _, dd in rl.var_init_from(f, lambda j: rl.is_call(f, j) and (f.nodes[j].get("callee") or "").startswith("mi_heap_malloc"))]
        if not zp or not olds or not news:
            ctx.broke("C04.R4: anchors (zero parameter / old usable size / new block) not found in %s" % fname)
            continue
        old_d, new_d = olds[0], news[0]["d"]
        newcall = f.strip(news[0]["init"])
        # the explicit clearing: memzero calls on the new block, in f itself or in a private helper that receives the new
        # block (and the old usable size) and runs the memzero on all of its paths
        sites = [(f, c, new_d, old_d, c) for c in f.calls(MEMZERO) if f.mentions_decl(rl.arg(f, c, 0), new_d)]
        for hc in f.calls():
            h = prog.fns.get(f.nodes[hc].get("callee"))
            if h is None or not h.d.get("static") or h.file != f.file or h.name == f.name:
                continue
            args = f.nodes[hc]["args"]
            kn = [k for k, a_ in enumerate(args) if rl.var_of(f, a_) == new_d]
            ko = [k for k, a_ in enumerate(args) if rl.var_of(f, a_) == old_d]
            if len(kn) != 1:
                continue
            hn, ho = h.param_id(kn[0]), (h.param_id(ko[0]) if len(ko) == 1 else None)
            hz = [c for c in h.calls(MEMZERO) if h.mentions_decl(rl.arg(h, c, 0), hn)]
            if hz and h.cfg.must_pass([h.cfg.entry], h.cfg.exit_points(), lambda e: e in hz) is None and not any(True for a_, r_, o_ in h.var_defs(hn)) and \
                    (ho is None or not any(True for a_, r_, o_ in h.var_defs(ho))):
                sites += [(h, c, hn, ho, hc) for c in hz]
        zs = [s_[4] for s_ in sites]
        # (a) on the zero edge with a non-NULL new block, a memzero of the new block is on every path to the return of newp
        rets = [r for r in f.all(kind="ReturnStmt") if "val" in f.nodes[r] and rl.var_of(f, f.nodes[r]["val"]) == new_d]
        eok0 = ztrue_edges(f, bool_params(f))
        def eok(lab, p, q):
            return eok0(lab, p, q) and not null_edge(f, new_d)(lab)
        w = cfg.must_pass([cfg.after(newcall)], [cfg.pt(r) for r in rets], lambda e: e in zs, edge_ok=eok)
        new_zeroed = False
        if w is not None:
            # alternative: the new block is obtained already zeroed
            zf = ZeroFlow(prog)
            new_zeroed = not zf.value(f, newcall, rets[0], set(bool_params(f)), 0, set())
        ctx.check(R, w is None or new_zeroed, f.where(), "zero path: the new block is memzero'ed (or obtained zeroed) before it is returned", key="C04.R4:%s" % fname, witness=w)
        for h, c, hn, ho, _site in sites:
            dst, ln = rl.arg(h, c, 0), rl.arg(h, c, 1)
            dj = h.strip(dst)
            # dest = newp + S
            S = None
            if h.nodes[dj]["k"] == "BinaryOperator" and h.nodes[dj]["op"] == "+" and h.mentions_decl(h.nodes[dj]["c"][0], hn):
                S = h.nodes[dj]["c"][1]
            elif h.nodes[dj]["k"] == "BinaryOperator" and h.nodes[dj]["op"] == "+" and h.mentions_decl(h.nodes[dj]["c"][1], hn):
                S = h.nodes[dj]["c"][0]
            elif rl.var_of(h, dst) == hn:
                S = "zero"
            lj = h.strip(ln)
            ends_at_usable = False
            if S == "zero":
                ends_at_usable = rl.is_call(h, lj, USABLE) and h.mentions_decl(lj, hn)
            elif S is not None and h.nodes[lj]["k"] == "BinaryOperator" and h.nodes[lj]["op"] == "-":
                a, b = h.nodes[lj]["c"]
                ends_at_usable = rl.is_call(h, h.strip(a), USABLE) and h.mentions_decl(a, hn) and rl.canon(h, b) == rl.canon(h, S)
            ctx.check(R, ends_at_usable, h.where(c), "zeroed range [%s, +%s) must end at the usable size of the new block, not at the request" % (h.text(dst), h.text(ln)),
                      key="C04.R4:%s" % fname)
            starts_ok = S == "zero" or (S is not None and ho is not None and upper_bounded_by(h, S, ho))
            ctx.check(R, starts_ok, h.where(c), "zeroed range starts at %s <= old usable size" % ("0" if S == "zero" else h.text(S) if S is not None else "?"),
                      key="C04.R4:%s:start" % fname)
    ctx.floor(R, 6)


def r5(ctx, prog):
    R = ctx.rule("C04.R5", "huge-alignment path: the block is obtained without the zero flag (only the aligned part is committed) and "
                           "memzero(aligned_p, mi_usable_size(aligned_p)) runs under `zero` before the return")
    f = prog.fn("mi_heap_malloc_zero_aligned_at_overalloc")
    zf = ZeroFlow(prog)
    probs = zf.zeroed(f.name, set(bool_params(f)))
    ctx.check(R, not probs, f.where(), "with zero=true every returned block was obtained zeroed or is zeroed afterwards" + ("" if not probs else ": " + probs[0]),
              key="C04.R5:overalloc")
    for c in f.calls(MEMZERO):
        dst, ln = rl.arg(f, c, 0), rl.arg(f, c, 1)
        ok = rl.is_call(f, f.strip(ln), USABLE) and f.text(f.nodes[f.strip(ln)]["args"][0]) == f.text(dst)
        ctx.check(R, ok, f.where(c), "memzero(%s, %s) covers the usable size of the pointer that is returned" % (f.text(dst), f.text(ln)), key="C04.R5:len")
        rets = [r for r in f.all(kind="ReturnStmt") if "val" in f.nodes[r] and f.text(f.nodes[r]["val"]) == f.text(dst)]
        ctx.check(R, bool(rets), f.where(c), "the zeroed pointer is the one returned", key="C04.R5:ptr")
    ctx.floor(R, 3)


def run(ctx):
    ctx.explanation = ("Static decision of C04's code-shaped necessary conditions: interprocedural flow of the constant zero flag from all 27 zero-family entry "
                       "points to the zeroing primitive on every returning CFG path (with explicit zero-afterwards sites verified by must-pass-through), the "
                       "primitive's memzero length, page zero-flag stores, and the bounds of the range zeroed by the moving re-allocation. "
                       "NOT decided: that OS/arena memory reported as zero is zero; byte contents in general.")
    for c in (["REL"] if ctx.tier == "quick" else ["REL", "SEC", "DBG"]):
        prog = ctx.prog(c)
        n0 = len(ctx.instances)
        r1(ctx, prog); r2(ctx, prog); r3(ctx, prog); r4(ctx, prog); r5(ctx, prog)
        if c != "REL":
            for i in ctx.instances[n0:]:
                i["site"] += " [%s]" % c
                if not i["ok"]:
                    i["key"] += ":" + c
