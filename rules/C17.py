"""C17 — hardened builds detect double free / overflow / corrupted links (DESIGN §4 C17). Level: other. Configurations: MI_SECURE=4 and MI_DEBUG=3.

Decided: the checks are present and run before anything is modified (R1), a corrupted link is reported and cut (R2), keyed links are decoded only
through the checking accessor (R3), the remote-list walk is bounded (R4), the pointer codec is an inverse pair and padding is written/validated (R5),
the heap stays usable after a detection (R6). Not decided: that a *forged* in-page value is detected (excluded by the statement itself).
"""
import rl, shared
from facts import AnalysisBroken

LEVEL = "other"


def r1(ctx, prog, cfgname):
    R = ctx.rule("C17.R1", "hardened free: the double-free check runs first (true => return, nothing modified), then the padding check, then the push; the remote path checks padding before publishing")
    f = prog.fn("mi_free_block_local")
    cfg = f.cfg
    dbl = list(f.calls("mi_check_is_double_free"))
    pad = list(f.calls("mi_check_padding"))
    push = [c for c in f.calls("mi_block_set_next")]
    ctx.check(R, len(dbl) == 1 and len(pad) == 1 and len(push) == 1, f.where(), "[%s] double-free check, padding check and push are present" % cfgname, key="C17.R1:shape")
    if dbl and pad and push:
        w = rl.precedes(f, lambda e: e == dbl[0], pad[0])
        ctx.check(R, w is None, f.where(pad[0]), "[%s] double-free check precedes the padding check" % cfgname, key="C17.R1:order1", witness=w)
        w = rl.precedes(f, lambda e: e == pad[0], push[0])
        ctx.check(R, w is None, f.where(push[0]), "[%s] padding check precedes the push" % cfgname, key="C17.R1:order2", witness=w)
        # nothing is stored before the double-free verdict
        early = [a for a, l, rhs, op in f.stores() if f.nodes[f.strip(l)]["k"] != "DeclRefExpr" and cfg.reaches(cfg.pt(a), cfg.pt(dbl[0]))]
        ctx.check(R, not early, f.where(dbl[0]), "[%s] no store precedes the double-free check" % cfgname, key="C17.R1:no_store", witness=[f.loc(a) for a in early])
        hit = [q for p, q, e, pol in rl.edges_with_fact(f, rl.fact_call_true(f, "mi_check_is_double_free"))]
        ok = bool(hit)
        for q in hit:
            pts = cfg.reach([q])
            ok = ok and cfg.pt(push[0]) not in pts and not any(cfg.pt(a) in pts for a, l, rhs, op in f.stores() if f.nodes[f.strip(l)]["k"] != "DeclRefExpr")   # memory, not plain locals
        ctx.check(R, ok, f.where(), "[%s] a detected double free returns without touching the page" % cfgname, key="C17.R1:return")
    g = prog.fn("mi_check_is_double_free")
    body_trivial = all(g.cv(g.nodes[r].get("val", -1)) == 0 for r in g.all(kind="ReturnStmt"))
    ctx.check(R, not body_trivial and any(True for _ in g.calls("mi_check_is_double_freex")), g.where(), "[%s] mi_check_is_double_free is the real check in this configuration" % cfgname, key="C17.R1:real")
    if prog.has("mi_check_is_double_freex"):
        h = prog.fn("mi_check_is_double_freex")
        lists = [h.text(rl.arg(h, c, 1)) for c in h.calls("mi_list_contains")]
        ok = len(lists) == 3 and any("->free" in x for x in lists) and any("local_free" in x for x in lists) and any("thread_free" in x for x in lists)
        ctx.check(R, ok, h.where(), "[%s] all three lists are searched: %s" % (cfgname, lists), key="C17.R1:lists")
        eagain = prog.const("EAGAIN")
        for r in h.all(kind="ReturnStmt"):
            if h.cv(h.nodes[r].get("val", -1)) == 1:
                w = rl.precedes(h, lambda e: rl.is_call(h, e, "_mi_error_message") and h.cv(h.nodes[e]["args"][0]) == eagain, r)
                ctx.check(R, w is None, h.where(r), "[%s] `return true` is preceded by _mi_error_message(EAGAIN, ..)" % cfgname, key="C17.R1:eagain", witness=w)
    k = prog.fn("mi_free_block_mt")
    for c in k.calls("mi_free_block_delayed_mt"):
        w = rl.precedes(k, rl.call_to("mi_check_padding")(k), c)
        ctx.check(R, w is None, k.where(c), "[%s] the remote path checks the padding before publishing the block" % cfgname, key="C17.R1:remote", witness=w)
    for c in k.calls("_mi_padding_shrink"):
        w = rl.precedes(k, rl.call_to("mi_check_padding")(k), c)
        ctx.check(R, w is None, k.where(c), "[%s] the padding is verified before _mi_padding_shrink rewrites its delta (a shrink first would hide an overflow into the first word)" % cfgname,
                  key="C17.R1:remote:shrink", witness=w)
    v = prog.fn("mi_check_padding")
    efault = prog.const("EFAULT")
    ok = any(rl.is_call(v, c, "_mi_error_message") and v.cv(v.nodes[c]["args"][0]) == efault for c in v.calls("_mi_error_message")) and any(True for _ in v.calls("mi_verify_padding"))
    ctx.check(R, ok, v.where(), "[%s] a failed padding verification reports EFAULT" % cfgname, key="C17.R1:padding")


def r2(ctx, prog, cfgname):
    R = ctx.rule("C17.R2", "mi_block_next: a decoded link that is non-NULL and not in the same page is reported (EFAULT) and replaced by NULL")
    f = prog.fn("mi_block_next")
    cfg = f.cfg
    efault = prog.const("EFAULT")
    hit = [(p, q) for p, q, e, pol in rl.edges_with_fact(f, rl.fact_call_false(f, "mi_is_in_same_page"))]
    ok = bool(hit)
    w = None
    nexts = [dd["d"] for _, dd in rl.var_init_from(f, lambda j: rl.is_call(f, j, "mi_block_nextx"))]
    cut = True
    for p_, q in hit:
        w = w or cfg.must_pass([q], cfg.exit_points(), lambda e: rl.is_call(f, e, "_mi_error_message") and f.cv(f.nodes[e]["args"][0]) == efault)
        # the bad link does not leave the function: NULL is returned (as `next = NULL; return next;` or as `return NULL;`)
        cut = cut and rl.returns_only(f, q, 0, src=p_)
    ctx.check(R, ok and w is None and cut and bool(nexts), f.where(), "[%s] out-of-page link: error EFAULT and NULL is returned on every path" % cfgname, key="C17.R2:cut", witness=w)
    rets = [r for r in f.all(kind="ReturnStmt") if "val" in f.nodes[r]]
    ctx.check(R, all(rl.var_of(f, f.nodes[r]["val"]) in nexts or f.cv(f.nodes[r]["val"]) == 0 for r in rets), f.where(), "[%s] the (possibly cut) link is what is returned" % cfgname, key="C17.R2:ret")
    g = prog.fn("mi_is_in_same_page")
    def other_seg(e, pol):
        return isinstance(e, int) and rl.rel(g, e, pol, lambda j: g.mentions_call(j, "_mi_ptr_segment"), lambda j: True) == "!="
    gh = [q for p, q, e, pol in rl.edges_with_fact(g, other_seg)]
    ok = bool(gh) and any(True for _ in g.calls(("_mi_segment_page_start", "mi_page_start")))
    for q in gh:
        ok = ok and rl.returns_only(g, q, 0)
    ctx.check(R, ok, g.where(), "[%s] same page = same segment and inside the page area" % cfgname, key="C17.R2:same_page")


def r3(ctx, prog, cfgname):
    R = ctx.rule("C17.R3", "page-keyed links are decoded only by mi_block_next and the double-free probe; every free-list walk goes through mi_block_next")
    n = 0
    for f in prog.fns.values():
        for c in f.calls("mi_block_nextx"):
            keys = rl.arg(f, c, 2)
            first = rl.arg(f, c, 0)
            page_keyed = f.mentions_field(keys, "keys") and "mi_page_t" in f.nodes[f.strip(first)].get("t", "") or \
                (f.mentions_field(keys, "keys") and any(f.nodes[x]["k"] == "DeclRefExpr" and "mi_page_t" in f.nodes[x].get("t", "") for x in f.walk(keys)))
            if not page_keyed:
                continue
            n += 1
            ctx.check(R, f.name in ("mi_block_next", "mi_check_is_double_free"), f.where(c), "[%s] raw decode of a page-keyed link in %s" % (cfgname, f.name), key="C17.R3:%s" % f.name)
    if n < 2:
        ctx.broke("C17.R3[%s]: fewer than 2 page-keyed decode sites" % cfgname)
    # direct reads of block->next outside the accessors
    for f in prog.fns.values():
        for m in f.members("next", "mi_block_s"):
            acc = f.access(m)
            if acc == "read" and f.name not in ("mi_block_nextx",):
                ctx.fail(R, f.where(m), "[%s] block->next is read without decoding" % cfgname, key="C17.R3:rawread:%s" % f.name)


def r4(ctx, prog, cfgname):
    R = ctx.rule("C17.R4", "the walk over a taken remote list is bounded by page->capacity; an over-long list is reported (EFAULT) and left untouched")
    f = prog.fn("_mi_page_thread_free_collect")
    cfg = f.cfg
    efault = prog.const("EFAULT")
    maxs = [dd["d"] for _, dd in rl.var_init_from(f, lambda j: rl.field_is(f, j, "capacity"))]
    ctx.check(R, len(maxs) == 1, f.where(), "[%s] max_count = page->capacity" % cfgname, key="C17.R4:max")
    if maxs:
        loops = [L["node"] for L in f.loops()]
        anyvar = lambda j: f.nodes[j]["k"] == "DeclRefExpr" and f.nodes[j]["dk"] == "local" and f.nodes[j]["d"] != maxs[0]
        def within(e, pol):
            return isinstance(e, int) and rl.establishes(f, e, pol, "<=", anyvar, rl.is_local(f, maxs[0]))
        ok = bool(loops) and any(cfg.guarded(cfg.pt(f.nodes[l]["body"]), within) is None for l in loops)
        ctx.check(R, ok, f.where(), "[%s] the loop body runs only while count <= max_count" % cfgname, key="C17.R4:cond")
        def over(e, pol):
            # the explicit test after the walk (an if), not the exit edge of the loop itself
            return isinstance(e, int) and rl.establishes(f, e, pol, ">", anyvar, rl.is_local(f, maxs[0])) and rl.branch_stmt(f, e) == "IfStmt"
        hit = [q for p, q, e, pol in rl.edges_with_fact(f, over)]
        ok = bool(hit)
        for q in hit:
            pts = cfg.reach([q])
            w = cfg.must_pass([q], cfg.exit_points(), lambda e: rl.is_call(f, e, "_mi_error_message") and f.cv(f.nodes[e]["args"][0]) == efault)
            touched = [a for a, l, rhs, op in f.stores() if cfg.pt(a) in pts and (rl.field_is(f, l, "used") or rl.field_is(f, l, "local_free"))]
            ok = ok and w is None and not touched
        ctx.check(R, ok, f.where(), "[%s] count > max_count: EFAULT, and neither used nor local_free is changed" % cfgname, key="C17.R4:over")


def chain(f, e, var_pred):
    """linearise an expression into (innermost, [ops...]) where each op is (name, operand-text); innermost satisfies var_pred"""
    ops = []
    while True:
        j = f.strip(e)
        n = f.nodes[j]
        if var_pred(j):
            return j, ops[::-1]
        if n["k"] == "BinaryOperator" and n["op"] in ("^", "+", "-"):
            a, b = n["c"]
            if _contains(f, a, var_pred):
                ops.append((n["op"], rl.canon(f, b)))
                e = a
                continue
            if n["op"] != "-" and _contains(f, b, var_pred):
                ops.append((n["op"], rl.canon(f, a)))
                e = b
                continue
        if n["k"] == "CallExpr" and n.get("callee") in ("mi_rotl", "mi_rotr"):
            ops.append((n["callee"], rl.canon(f, n["args"][1])))
            e = n["args"][0]
            continue
        if n["k"] == "ConditionalOperator":
            return j, ops[::-1]
        return None, None


def _contains(f, e, pred):
    return any(pred(x) for x in f.walk(e))


def r5(ctx, prog, cfgname):
    R = ctx.rule("C17.R5", "codec: mi_ptr_decode is the inverse operation chain of mi_ptr_encode; canary and delta are written at allocation; delta <= bsize is validated; "
                           "at most MI_MAX_ALIGN_SIZE padding bytes are inspected")
    enc, dec = prog.fn("mi_ptr_encode"), prog.fn("mi_ptr_decode")
    # by role: the encoder returns a chain of ^, +, rotations over one value variable (anything that is not a cached key);
    # the decoder applies its chain to its `x` parameter in the local that is computed with a rotation
    eret = [r for r in enc.all(kind="ReturnStmt") if "val" in enc.nodes[r] and enc.mentions_call(enc.nodes[r]["val"], ("mi_rotl", "mi_rotr"))]
    dp = [dd for _, dd in rl.local_decl(dec, lambda dd: "init" in dd and dec.mentions_call(dd["init"], ("mi_rotl", "mi_rotr")))]
    dp += [dict(init=dec.nodes[r]["val"]) for r in dec.all(kind="ReturnStmt") if "val" in dec.nodes[r] and dec.mentions_call(dec.nodes[r]["val"], ("mi_rotl", "mi_rotr"))]
    ok = len(eret) == 1 and len(dp) == 1
    if ok:
        is_value = lambda j: enc.nodes[j]["k"] == "DeclRefExpr" and enc.nodes[j].get("dk") in ("local", "parm") and not rl.canon(enc, j).startswith("$2")
        _, eops = chain(enc, enc.nodes[eret[0]]["val"], is_value)
        xparm = dec.param_id(1)
        _, dops = chain(dec, dp[0]["init"], lambda j: dec.nodes[j]["k"] == "DeclRefExpr" and dec.nodes[j]["d"] == xparm)
        inv = {"^": "^", "+": "-", "-": "+", "mi_rotl": "mi_rotr", "mi_rotr": "mi_rotl"}
        want = [(inv[o], a) for o, a in (eops or [])][::-1] if eops else None
        ok = eops is not None and dops is not None and len(eops) >= 3 and dops == want
        ctx.check(R, ok, dec.where(), "[%s] encode chain %s ; decode chain %s" % (cfgname, eops, dops), key="C17.R5:inverse")
    else:
        ctx.fail(R, dec.where(), "[%s] codec shape not recognised" % cfgname, key="C17.R5:inverse")
    f = prog.fn("_mi_page_malloc_zero")
    can = [(a, rhs) for a, l, rhs, op in f.field_stores("canary")]
    dl = [(a, rhs) for a, l, rhs, op in f.field_stores("delta")]
    ok = len(can) == 1 and len(dl) == 1 and rl.is_call(f, f.strip(can[0][1]), "mi_ptr_encode_canary")
    ctx.check(R, ok, f.where(), "[%s] padding->canary = mi_ptr_encode_canary(page, block, keys) and padding->delta are stored at allocation" % cfgname, key="C17.R5:write")
    if ok:
        for a, _ in can + dl:
            rets = [r for r in f.all(kind="ReturnStmt") if "val" in f.nodes[r] and f.cfg.reaches(f.cfg.pt(a), f.cfg.pt(r))]
            w = rl.precedes(f, lambda e, a=a: e == a, rets[0], edge_ok=lambda lab, p, q: not any(isinstance(e, int) and rl.fact_null(f, e, pol, lambda j: "block" in f.text(j)) for e, pol in f.cfg.facts(lab))) if rets else ["no return"]
            ctx.check(R, w is None, f.where(a), "[%s] on every path that returns the popped block" % cfgname, key="C17.R5:write:path", witness=w)
    g = prog.fn("mi_page_decode_padding")
    ok = any(rl.cmp_parts(g, x) and rl.cmp_parts(g, x)[0] == "<=" and "delta" in g.text(rl.cmp_parts(g, x)[1]) and "bsize" in g.text(rl.cmp_parts(g, x)[2]) for x in g.all(kind="BinaryOperator")) and \
        any(rl.cmp_parts(g, x) and rl.cmp_parts(g, x)[0] == "==" and g.mentions_call(x, "mi_ptr_encode_canary") for x in g.all(kind="BinaryOperator"))
    ctx.check(R, ok, g.where(), "[%s] valid padding = canary matches AND delta <= bsize" % cfgname, key="C17.R5:validate")
    if prog.has("mi_verify_padding"):
        v = prog.fn("mi_verify_padding")
        maxal = prog.const("MI_MAX_ALIGN_SIZE")
        mp = [dd for _, dd in rl.local_decl(v, lambda dd: "init" in dd and v.nodes[v.strip(dd["init"])]["k"] == "ConditionalOperator" and any(v.cv(x) == maxal for x in v.walk(dd["init"])))]
        ok = len(mp) == 1 and any(L["op"] == "<" and rl.var_of(v, L["bound"]) == mp[0]["d"] and L["first"] is not None and v.cv(L["first"]) == 0 for L in rl.counted_loops(v))
        ctx.check(R, ok, v.where(), "[%s] the scan is bounded by min(delta, MI_MAX_ALIGN_SIZE)" % cfgname, key="C17.R5:scan")
        first = [r for r in v.all(kind="ReturnStmt") if v.cv(v.nodes[r].get("val", -1)) == 0]
        ctx.check(R, bool(first), v.where(), "[%s] an undecodable padding is rejected before the scan" % cfgname, key="C17.R5:reject")


def r6(ctx, prog, cfgname):
    R = ctx.rule("C17.R6", "the heap stays usable after a detection: the error handler is called with a constant code and control returns (no abort on EAGAIN/EFAULT paths in the checks)")
    codes = {}
    for fname in ("mi_check_is_double_freex", "mi_block_next", "mi_check_padding", "_mi_page_thread_free_collect"):
        if not prog.has(fname):
            continue
        f = prog.fn(fname)
        for c in f.calls("_mi_error_message"):
            codes[fname] = f.cv(f.nodes[c]["args"][0])
            # control continues to a function exit after the report
            ok = any(True for _ in [1]) and f.cfg.reaches(f.cfg.after(c), f.cfg.exit) or any(f.cfg.reaches(f.cfg.after(c), p) for p in f.cfg.return_points())
            ctx.check(R, ok, f.where(c), "[%s] after the report the function returns normally" % cfgname, key="C17.R6:%s" % fname)
    want = {"mi_check_is_double_freex": prog.const("EAGAIN"), "mi_block_next": prog.const("EFAULT"), "mi_check_padding": prog.const("EFAULT"), "_mi_page_thread_free_collect": prog.const("EFAULT")}
    ctx.check(R, codes == want, "error codes", "[%s] detection sites report EAGAIN/EFAULT/EFAULT/EFAULT: %s" % (cfgname, codes), key="C17.R6:codes")


def r7(ctx, prog, cfgname):
    R = ctx.rule("C17.R7", "the cheap pre-filter in front of the double-free list walk accepts every value a genuine free-list link can have; in particular the list tail "
                           "(decoded link NULL): evaluated with the analyser's evaluator, the guard of mi_check_is_double_freex is definitely true for n == NULL")
    from absint import Interp, AV, Split, Unsupported, AssertionMayFail
    g = prog.fn("mi_check_is_double_free")
    calls = list(g.calls("mi_check_is_double_freex"))
    nd = [dd["d"] for _, dd in rl.var_init_from(g, lambda j: rl.is_call(g, j, "mi_block_nextx"))]
    if not calls or len(nd) != 1:
        ctx.broke("C17.R7[%s]: the slow check call / the decoded-link local of mi_check_is_double_free not found" % cfgname)
        return
    x = calls[0]
    while x is not None and g.nodes[x]["k"] != "IfStmt":
        x = g.parent.get(x)
    conds = []
    while x is not None:            # all enclosing ifs whose then-branch contains the call
        if g.nodes[x]["k"] == "IfStmt" and calls[0] in set(g.walk(g.nodes[x]["then"])):
            conds.append(g.nodes[x]["cond"])
        x = g.parent.get(x)
    if not conds:
        ctx.ok(R, g.where(calls[0]), "[%s] the list walk is unconditional" % cfgname)
        return
    it = Interp(prog)
    verdict, why = True, ""
    for c in conds:
        try:
            v = it.eval(g, c, {nd[0]: AV(0)}, 0)
            if v.const() is None or v.const() == 0:
                verdict, why = False, "guard `%s` evaluates to %s for a NULL link" % (g.text(c)[:80], "false" if v.const() == 0 else "an undetermined value")
        except (Split, Unsupported, AssertionMayFail) as e:
            verdict, why = False, "guard `%s` cannot be shown true for a NULL link (%s)" % (g.text(c)[:80], e)
    ctx.check(R, verdict, g.where(calls[0]), "[%s] %s" % (cfgname, "a block whose decoded link is NULL (tail of a free list: the most common double free) reaches the list walk" if verdict else why),
              key="C17.R7:null_link")


def run(ctx):
    ctx.explanation = ("Static decision of C17's code-shaped necessary conditions in the two hardened programs (MI_SECURE=4 and MI_DEBUG=3, each its own AST/CFG): presence and order "
                       "of the double-free and padding checks before any store, report-and-cut of out-of-page links, who-may-decode page-keyed links, the bound of the remote walk, "
                       "inverse structure of the pointer codec, padding write/validation, and that every detection path returns normally with the documented error code. "
                       "NOT decided: detection of forged in-page values; `no address outside the heap is ever returned` as a history property.")
    rel = ctx.prog("REL")
    g = rel.fn("mi_check_is_double_free")
    ctx.note("cross-config: in the release program mi_check_is_double_free is %s and mi_block_next has %d error sites (hardening compiled out, as designed)" % (
        "the constant false" if all(g.cv(g.nodes[r].get("val", -1)) == 0 for r in g.all(kind="ReturnStmt")) else "non-trivial",
        sum(1 for _ in rel.fn("mi_block_next").calls("_mi_error_message"))))
    for c in ("SEC", "DBG"):
        prog = ctx.prog(c)
        for k in ("MI_ENCODE_FREELIST", "MI_PADDING"):
            try:
                v = prog.const(k)
            except AnalysisBroken:
                v = None
            if not v:
                # MI_ENCODE_FREELIST is defined without a value: presence is visible through the keyed decode in mi_block_nextx
                if k == "MI_ENCODE_FREELIST" and any(True for _ in prog.fn("mi_block_nextx").calls("mi_ptr_decode")):
                    continue
                ctx.broke("configuration %s does not enable %s" % (c, k))
        n0 = len(ctx.instances)
        r1(ctx, prog, c); r2(ctx, prog, c); r3(ctx, prog, c); r4(ctx, prog, c); r5(ctx, prog, c); r6(ctx, prog, c); r7(ctx, prog, c)
        for i in ctx.instances[n0:]:
            i["site"] += " [%s]" % c
            if not i["ok"]:
                i["key"] += ":" + c
    for r, fl in (("C17.R1", 22), ("C17.R2", 6), ("C17.R3", 4), ("C17.R4", 6), ("C17.R5", 12), ("C17.R6", 8), ("C17.R7", 2)):
        ctx.floor(r, fl)
