"""C01 — live blocks are disjoint, accessible and keep their contents (DESIGN §4 C01). Level: other.

Decided (necessary conditions of disjointness): pop pairing (R1), push pairing (R2), list conservation (R3), extension within the
reserve (R4), reserve from the page's own area (R5), only all-free pages are freed (R6), span arithmetic (R7), slice back-pointer
units (R8), module ownership of the page/slice bookkeeping (R9).
Not decided: that these compose to "no overlap for every history"; list surgery in page-queue.c; contents preservation beyond R1–R3.
"""
import os
import rl, shared
from facts import AnalysisBroken

LEVEL = "other"


def r1(ctx, prog):
    R = ctx.rule("C01.R1", "pop: every path of _mi_page_malloc_zero that returns the block popped from page->free took its non-NULL edge, advanced page->free to "
                           "mi_block_next(page, block) and incremented page->used exactly once")
    f = prog.fn("_mi_page_malloc_zero")
    cfg = f.cfg
    blocks = [dd["d"] for _, dd in rl.var_init_from(f, lambda j: rl.field_is(f, j, "free"))]
    if not blocks:
        raise AnalysisBroken("C01.R1: no local initialised from page->free in _mi_page_malloc_zero")
    b = blocks[0]
    rets = [r for r in f.all(kind="ReturnStmt") if "val" in f.nodes[r] and rl.var_of(f, f.nodes[r]["val"]) == b]
    if not rets:
        raise AnalysisBroken("C01.R1: _mi_page_malloc_zero does not return the popped block")
    adv = [a for a, l, rhs, op in f.field_stores("free") if op == "=" and rhs is not None and rl.is_call(f, f.strip(rhs), "mi_block_next") and
           rl.var_of(f, f.nodes[f.strip(rhs)]["args"][1]) == b]
    incs = [a for a, l, kind, opnd in f.field_updates("used") if kind == "add" and opnd == 1]
    for r in rets:
        w = cfg.guarded(cfg.pt(r), lambda e, pol: isinstance(e, int) and rl.fact_nonnull(f, e, pol, rl.is_var(f, b)))
        ctx.check(R, w is None, f.where(r), "the popped block is returned only on its non-NULL edge", key="C01.R1:nonnull", witness=w)
        w = rl.precedes(f, lambda e: e in adv, r)
        ctx.check(R, w is None and len(adv) >= 1, f.where(r), "page->free = mi_block_next(page, block) on every path to the return", key="C01.R1:advance", witness=w)
        w = rl.precedes(f, lambda e: e in incs, r)
        ctx.check(R, w is None and len(incs) == 1, f.where(r), "page->used++ exactly once on every path to the return (%d increment sites)" % len(incs), key="C01.R1:used", witness=w)
    # no other store to page->free in the pop
    others = [a for a, l, rhs, op in f.field_stores("free") if a not in adv]
    ctx.check(R, not others, f.where(), "page->free is written only by the advance", key="C01.R1:other_store")
    # the pop reads the link before anything else can change the block
    ctx.floor(R, 4)


def r2(ctx, prog):
    R = ctx.rule("C01.R2", "push: mi_free_block_local links the block in front of page->local_free, makes it the head, decrements page->used exactly once; the only early exit is a detected double free")
    f = prog.fn("mi_free_block_local")
    cfg = f.cfg
    pg, blk = f.param_id(0), f.param_id(1)
    links = [c for c in f.calls("mi_block_set_next") if rl.var_of(f, rl.arg(f, c, 1)) == blk and rl.field_is(f, rl.arg(f, c, 2), "local_free")]
    heads = [a for a, l, rhs, op in f.field_stores("local_free") if op == "=" and rhs is not None and rl.var_of(f, rhs) == blk]
    decs = [a for a, l, kind, opnd in f.field_updates("used") if kind == "sub" and opnd == 1]
    ctx.check(R, len(links) == 1 and len(heads) == 1 and len(decs) == 1, f.where(), "one link, one head store, one decrement", key="C01.R2:shape")
    if links and heads and decs:
        def dbl(lab, p, q):
            return not any(isinstance(e, int) and pol and rl.is_call(f, f.strip(e), "mi_check_is_double_free") for e, pol in cfg.facts(lab))
        for nm, site in (("link", links[0]), ("head", heads[0]), ("dec", decs[0])):
            w = cfg.must_pass([cfg.entry], cfg.exit_points(), lambda e, site=site: e == site, edge_ok=dbl)
            ctx.check(R, w is None, f.where(site), "%s lies on every path except the double-free return" % nm, key="C01.R2:%s" % nm, witness=w)
        w = rl.precedes(f, lambda e: e == links[0], heads[0])
        ctx.check(R, w is None, f.where(heads[0]), "the block is linked to the old head before it becomes the head", key="C01.R2:order", witness=w)
        w = rl.precedes(f, lambda e: e == heads[0], decs[0])
        ctx.check(R, w is None, f.where(decs[0]), "used is decremented after the push", key="C01.R2:order2", witness=w)
    for c in f.calls("_mi_page_retire"):
        def used0(e, pol):
            if not isinstance(e, int):
                return False
            cc = rl.norm_cmp(f, e, pol)
            return cc is not None and cc[0] == "==" and f.cv(cc[2]) == 0 and f.mentions_field(cc[1], "used")
        w = cfg.guarded(cfg.pt(c), used0)
        ctx.check(R, w is None, f.where(c), "_mi_page_retire only when used reached 0", key="C01.R2:retire", witness=w)
    ctx.floor(R, 6)


def r3(ctx, prog):
    R = ctx.rule("C01.R3", "list conservation: a block is never on two lists — local_free moves to free and is then cleared; the forced append links the tail first; "
                           "the thread-free take-over appends and recounts")
    f = prog.fn("_mi_page_free_collect")
    cfg = f.cfg
    n = 0
    for a, l, rhs, op in f.field_stores("free"):
        n += 1
        ok = rhs is not None and rl.field_is(f, rhs, "local_free")
        ctx.check(R, ok, f.where(a), "page->free is only ever set to page->local_free here (%s)" % f.text(rhs), key="C01.R3:collect:value")
        w = rl.followed_by(f, a, lambda e: f.nodes[e]["k"] == "BinaryOperator" and f.nodes[e]["op"] == "=" and rl.field_is(f, f.nodes[e]["c"][0], "local_free") and f.cv(f.nodes[e]["c"][1]) == 0)
        ctx.check(R, w is None, f.where(a), "and local_free = NULL follows on every path", key="C01.R3:collect:clear", witness=w)
        # either free was NULL, or the old free list was linked behind the tail first
        def free_null(e, pol):
            return isinstance(e, int) and rl.fact_null(f, e, pol, lambda j: f.nodes[j]["k"] == "MemberExpr" and f.nodes[j]["fld"] == "free")
        w1 = cfg.guarded(cfg.pt(a), free_null)
        w2 = rl.precedes(f, lambda e: rl.is_call(f, e, "mi_block_set_next") and rl.field_is(f, f.nodes[e]["args"][2], "free"), a,
                         edge_ok=lambda lab, p, q: not any(free_null(e, pol) for e, pol in cfg.facts(lab)))
        ctx.check(R, w1 is None or w2 is None, f.where(a), "the previous free list is empty or was appended behind the tail (nothing is dropped)", key="C01.R3:collect:append", witness=w2)
    if n < 1:
        ctx.broke("C01.R3: no store to page->free in _mi_page_free_collect")
    shared.recount(ctx, R, prog)
    ctx.floor(R, 6)   # one store (merged branches) gives 6, two give 9


def r4(ctx, prog):
    R = ctx.rule("C01.R4", "extension stays inside the reserve: early return on capacity >= reserved; extend <= reserved - capacity; blocks capacity..capacity+extend-1; capacity += extend")
    f = prog.fn("mi_page_extend_free")
    cfg = f.cfg
    exts = [c for c in f.calls(("mi_page_free_list_extend", "mi_page_free_list_extend_secure"))]
    if not exts:
        raise AnalysisBroken("C01.R4: no free-list extension call")
    def room(e, pol):
        if not isinstance(e, int):
            return False
        return rl.establishes(f, e, pol, "<", rl.is_field(f, "capacity"), rl.is_field(f, "reserved"))
    import bounds
    for c in exts:
        w = cfg.guarded(cfg.pt(c), room)
        ctx.check(R, w is None, f.where(c), "extension only when capacity < reserved", key="C01.R4:room", witness=w)
    # extend variable: initialised as reserved - capacity, afterwards only reduced (extend = max_extend under extend > max_extend)
    evs = [dd for _, dd in rl.local_decl(f, lambda dd: "init" in dd and rl.canon(f, dd["init"]).replace(" ", "") in ("($1->reserved-$1->capacity)",))]
    ok = len(evs) == 1
    ctx.check(R, ok, f.where(), "extend is initialised to page->reserved - page->capacity", key="C01.R4:init")
    if ok:
        ed = evs[0]["d"]
        for a, rhs, op in f.var_defs(ed):
            if op == "decl":
                continue
            d2 = rl.var_of(f, rhs) if rhs is not None else None
            def gt(e, pol):
                if not isinstance(e, int):
                    return False
                return rl.establishes(f, e, pol, ">", rl.is_local(f, ed), rl.is_local(f, d2))
            w = cfg.guarded(cfg.pt(a), gt) if (op == "=" and d2 is not None) else ["not a clamp"]
            ctx.check(R, w is None, f.where(a), "extend is only ever reduced (clamp idiom `if (extend > m) extend = m`)", key="C01.R4:clamp", witness=w)
        for c in exts:
            k = [i for i, a in enumerate(f.nodes[c]["args"]) if rl.var_of(f, a) == ed]
            ctx.check(R, len(k) == 1, f.where(c), "the extender receives that same extend count", key="C01.R4:arg")
        caps = [(a, opnd) for a, l, kind, opnd in f.field_updates("capacity") if kind == "add" and opnd != 1]
        ok = len(caps) == 1 and rl.var_of(f, caps[0][1]) == ed
        ctx.check(R, ok, f.where(), "capacity += extend (the same value)", key="C01.R4:capacity")
        if caps:
            for c in exts:
                w = rl.followed_by(f, c, lambda e: e == caps[0][0])
                ctx.check(R, w is None, f.where(c), "capacity is increased after the list was extended", key="C01.R4:after", witness=w)
    g = prog.fn("mi_page_free_list_extend")
    ext_p = next((g.param_id(k) for k, p in enumerate(g.d["params"]) if p["n"] == "extend" or k == 2), None)
    ats = list(g.calls("mi_page_block_at"))
    idx = sorted(rl.canon(g, rl.arg(g, c, 3)).replace(" ", "") for c in ats)
    want = sorted(["$0->capacity", "(($0->capacity+$2)-1)"])
    ctx.check(R, idx == want, g.where(), "first and last new block are at indices capacity and capacity+extend-1 (found %s)" % idx, key="C01.R4:indices")
    for a, l, rhs, op in g.field_stores("free"):
        firsts = [dd["d"] for _, dd in rl.var_init_from(g, lambda j: rl.is_call(g, j, "mi_page_block_at") and rl.canon(g, g.nodes[j]["args"][3]) == "$0->capacity")]
        ctx.check(R, rhs is not None and rl.var_of(g, rhs) in firsts, g.where(a), "page->free = first new block", key="C01.R4:head")
        w = rl.precedes(g, lambda e: rl.is_call(g, e, "mi_block_set_next") and rl.field_is(g, g.nodes[e]["args"][2], "free"), a)
        ctx.check(R, w is None, g.where(a), "the last new block is linked to the previous free list first", key="C01.R4:tail", witness=w)
    ctx.floor(R, 10)


def r5(ctx, prog):
    R = ctx.rule("C01.R5", "reserve from the page's own area: page->reserved = page_size / block_size with page_size the out-parameter of the very "
                           "_mi_segment_page_start call that defines page->page_start, and block_size the value stored to page->block_size")
    f = prog.fn("mi_page_init")
    bs_p = next((f.param_id(k) for k, p in enumerate(f.d["params"]) if p["n"] == "block_size" or k == 2), None)
    starts = [(a, rhs) for a, l, rhs, op in f.field_stores("page_start") if rhs is not None and rl.is_call(f, f.strip(rhs), "_mi_segment_page_start")]
    ctx.check(R, len(starts) == 1, f.where(), "page->page_start = _mi_segment_page_start(segment, page, &page_size)", key="C01.R5:start")
    ps_d = None
    if starts:
        c = f.strip(starts[0][1])
        a2 = f.strip(f.nodes[c]["args"][2])
        if f.nodes[a2]["k"] == "UnaryOperator" and f.nodes[a2]["op"] == "&":
            ps_d = rl.var_of(f, f.nodes[a2]["c"][0])
        ctx.check(R, rl.var_of(f, f.nodes[c]["args"][1]) == f.param_id(1), f.where(c), "for this page", key="C01.R5:page")
    res = [(a, rhs) for a, l, rhs, op in f.field_stores("reserved")]
    ok = len(res) == 1 and ps_d is not None
    if ok:
        j = f.strip(res[0][1])
        n = f.nodes[j]
        ok = n["k"] == "BinaryOperator" and n["op"] == "/" and rl.var_of(f, n["c"][0]) == ps_d and rl.var_of(f, n["c"][1]) == bs_p
        if ok and starts:
            ok = f.cfg.reaches(f.cfg.after(starts[0][0]), f.cfg.pt(res[0][0]))
    ctx.check(R, ok, f.where(), "page->reserved = page_size / block_size (stored once, after page_size is known)", key="C01.R5:reserved")
    bst = [(a, rhs) for a, l, rhs, op in f.field_stores("block_size")]
    ctx.check(R, len(bst) == 1 and rl.var_of(f, bst[0][1]) == bs_p, f.where(), "page->block_size = block_size (the divisor)", key="C01.R5:block_size")
    # the start and the size that _mi_segment_page_start_from_slice reports describe the same area: start = pstart + o and
    # *page_size = psize - o for one and the same offset o (otherwise `reserved` counts blocks that lie beyond the page)
    g = prog.fn("_mi_segment_page_start_from_slice")
    rets = [r for r in g.all(kind="ReturnStmt") if "val" in g.nodes[r]]
    outp = next((g.param_id(k) for k, p_ in enumerate(g.d["params"]) if p_["t"].replace(" ", "") == "size_t*"), None)
    sizes = [rhs for a, lhs, rhs, op in g.stores() if op == "=" and rhs is not None and g.nodes[g.strip(lhs)]["k"] == "UnaryOperator" and g.nodes[g.strip(lhs)]["op"] == "*"
             and rl.var_of(g, g.nodes[g.strip(lhs)]["c"][0]) == outp]
    ok = len(rets) == 1 and len(sizes) == 1
    detail = ""
    if ok:
        rj, sj = g.strip(g.nodes[rets[0]]["val"]), g.strip(sizes[0])
        # a returned local that merely names pstart + o is expanded by canon
        pm = {d: "$%d" % k for k, d in enumerate(g.pids)}
        for nd_, dd in rl.local_decl(g, lambda dd: "init" in dd):
            if g.nodes[nd_].get("inl_param"):
                continue      # parameter temporary of an inlined helper
            if g.mentions_field(dd["init"], "slice_count") or "->slice_count" in rl.canon(g, dd["init"]):
                pm[dd["d"]] = "psize"
            elif "*" in dd["t"] and g.mentions_decl(dd["init"], g.param_id(0)):
                pm[dd["d"]] = "pstart"
        rt, st = rl.canon(g, rj, pm).replace(" ", ""), rl.canon(g, sj, pm).replace(" ", "")
        import re
        mr = re.fullmatch(r"\((\w+)\+(\w+)\)", rt)
        ms = re.fullmatch(r"\((\w+)-(\w+)\)", st)
        ok = bool(mr) and bool(ms) and ms.group(2) in (mr.group(1), mr.group(2))
        detail = "start = %s, *page_size = %s" % (rt, st)
    ctx.check(R, ok, g.where(), "page start and page size use the same offset (%s)" % detail, key="C01.R5:area")
    ctx.floor(R, 5)


def r6(ctx, prog):
    R = ctx.rule("C01.R6", "only all-free pages are freed: every call of _mi_page_free / _mi_segment_page_free / mi_segment_page_clear is dominated by a used==0 test of that page")
    n = 0
    for f in prog.fns.values():
        for c in f.calls(("_mi_page_free", "_mi_segment_page_free", "mi_segment_page_clear")):
            if f.name in ("_mi_page_free", "_mi_segment_page_free") and f.nodes[c]["callee"] in ("_mi_segment_page_free", "mi_segment_page_clear"):
                # the chain _mi_page_free -> _mi_segment_page_free -> mi_segment_page_clear passes its own (already checked) page on
                ok = rl.var_of(f, rl.arg(f, c, 0)) == f.param_id(0)
                n += 1
                ctx.check(R, ok, f.where(c), "forwards its own page argument down the free chain", key="C01.R6:%s:chain" % f.name)
                continue
            n += 1
            cfg = f.cfg
            def allfree(e, pol):
                if not isinstance(e, int):
                    return False
                if pol and rl.is_call(f, f.strip(e), "mi_page_all_free"):
                    return True
                cc = rl.norm_cmp(f, e, pol)
                return cc is not None and cc[0] == "==" and f.cv(cc[2]) == 0 and f.mentions_field(cc[1], "used") and not f.mentions_field(cc[1], "segment")
            w = cfg.guarded(cfg.pt(c), allfree)
            ok = w is None
            how = "dominated by an all-free test"
            if not ok:
                w2 = rl.precedes(f, rl.store_field_const(f, "used", 0), c)
                ok = w2 is None
                how = "explicit page->used = 0 (destroy)"
            if not ok and f.name == "_mi_page_retire":
                ok = True   # entry contract of _mi_page_retire (asserted): reached only from mi_free_block_local on used == 0 (C01.R2)
                how = "entry contract: _mi_page_retire is called only when used reached 0 (C01.R2)"
            if not ok and f.name == "_mi_segment_huge_page_reset":
                ok = False
            ctx.check(R, ok, f.where(c), "%s(%s): %s" % (f.nodes[c]["callee"], f.text(rl.arg(f, c, 0)), how if ok else "no used==0 test dominates the call"),
                      key="C01.R6:%s:%s" % (f.name, f.nodes[c]["callee"]), witness=w)
    for c in rl.callers_of(prog, "_mi_page_retire"):
        ctx.check(R, c in ("mi_free_block_local",), prog.fn(c).where(), "_mi_page_retire is called only from mi_free_block_local", key="C01.R6:retire_caller:%s" % c)
    if n < 9:
        ctx.broke("C01.R6: %d page-free call sites, 9 confirmed on the pinned tree" % n)
    ctx.floor(R, 10)


def r7(ctx, prog):
    R = ctx.rule("C01.R7", "span arithmetic: allocate only from a span that is large enough, split off exactly the remainder, merge only free neighbours")
    f = prog.fn("mi_segments_page_find_and_allocate")
    cfg = f.cfg
    want = f.param_id(0)
    def big_enough(e, pol):
        if not isinstance(e, int):
            return False
        return rl.establishes(f, e, pol, ">=", rl.is_field(f, "slice_count"), rl.is_local(f, want))
    for c in f.calls(("mi_segment_span_allocate", "mi_span_queue_delete")):
        w = cfg.guarded(cfg.pt(c), big_enough)
        ctx.check(R, w is None, f.where(c), "%s only on the `slice->slice_count >= slice_count` edge" % f.nodes[c]["callee"], key="C01.R7:find:fit", witness=w)
    for c in f.calls("mi_segment_slice_split"):
        def bigger(e, pol):
            if not isinstance(e, int):
                return False
            return rl.establishes(f, e, pol, ">", rl.is_field(f, "slice_count"), rl.is_local(f, want))
        w = cfg.guarded(cfg.pt(c), bigger)
        ctx.check(R, w is None, f.where(c), "split only when the span is strictly larger", key="C01.R7:find:split", witness=w)
        for c2 in f.calls("mi_segment_span_allocate"):
            w = rl.precedes(f, lambda e: e == c, c2, edge_ok=lambda lab, p, q: not any(isinstance(e, int) and rl.establishes(f, e, pol, "<=", rl.is_field(f, "slice_count"), rl.is_local(f, want))
                                                                                      for e, pol in cfg.facts(lab)))
            ctx.check(R, w is None, f.where(c2), "a larger span is split before it is allocated", key="C01.R7:find:split_first", witness=w)
    g = prog.fn("mi_segment_slice_split")
    sc = g.param_id(2)
    frees = list(g.calls("mi_segment_span_free"))
    ok = len(frees) == 1
    if ok:
        idx = rl.values_of(g, rl.arg(g, frees[0], 1))
        cnt = rl.values_of(g, rl.arg(g, frees[0], 2))
        ok_idx = any(rl.canon(g, v).replace(" ", "") in ("(mi_slice_index($1)+$2)", "($2+mi_slice_index($1))") for v in idx)
        ok_cnt = any(rl.canon(g, v).replace(" ", "") == "($1->slice_count-$2)" for v in cnt)
        ctx.check(R, ok_idx, g.where(frees[0]), "the remainder starts at index(slice)+slice_count (%s)" % [rl.canon(g, v) for v in idx], key="C01.R7:split:index")
        ctx.check(R, ok_cnt, g.where(frees[0]), "the remainder has slice->slice_count - slice_count slices (%s)" % [rl.canon(g, v) for v in cnt], key="C01.R7:split:count")
    st = [(a, rhs) for a, l, rhs, op in g.field_stores("slice_count")]
    ctx.check(R, len(st) == 1 and rl.var_of(g, st[0][1]) == sc, g.where(), "the kept part records exactly slice_count slices", key="C01.R7:split:keep")
    h = prog.fn("mi_segment_span_free_coalesce")
    cfg = h.cfg
    adds = []
    for d in [dd["d"] for _, dd in rl.local_decl(h, lambda dd: "init" in dd and rl.field_is(h, dd["init"], "slice_count"))]:
        for a, kind, opnd in h.var_updates(d):
            if kind != "add":
                continue
            # `count += r` with r a result variable (helper returning 0 or the neighbour's count): the merges are r's non-zero definitions
            r_ = rl.var_of(h, opnd) if isinstance(opnd, int) and opnd != 1 else None
            rdefs = [(x, rhs) for x, rhs, op in h.var_defs(r_) if rhs is not None and op in ("=", "decl")] if r_ is not None else []
            if len(rdefs) > 1:
                adds += [x for x, rhs in rdefs if h.cv(rhs) != 0]
            else:
                adds.append(a)
    ctx.check(R, len(adds) == 2, h.where(), "two merge sites (next neighbour, previous neighbour)", key="C01.R7:coalesce:sites")
    for a in adds:
        def nb_free(e, pol):
            if not isinstance(e, int):
                return False
            cc = rl.norm_cmp(h, e, pol)
            return cc is not None and cc[0] == "==" and h.cv(cc[2]) == 0 and rl.field_is(h, cc[1], "block_size")
        w = cfg.guarded(cfg.pt(a), nb_free)
        ctx.check(R, w is None, h.where(a), "a neighbour is merged only on its `block_size == 0` (free) edge", key="C01.R7:coalesce:free", witness=w)
    k = prog.fn("mi_segment_span_allocate")
    ctx.floor(R, 9)


def r8(ctx, prog):
    R = ctx.rule("C01.R8", "slice back-pointers are byte offsets: every store to slice_offset is 0, sizeof(mi_slice_t|mi_page_t)*k or a byte pointer difference; the reader subtracts bytes")
    sz = prog.const("sizeof_mi_slice_t")
    ctx.check(R, sz == prog.const("sizeof_mi_page_t"), "include/mimalloc/types.h", "sizeof(mi_slice_t) == sizeof(mi_page_t) == %d" % sz, key="C01.R8:sizes")
    n = 0
    for f in prog.fns.values():
        for a, l, rhs, op in f.field_stores("slice_offset"):
            n += 1
            ok = False
            if rhs is not None:
                if f.cv(rhs) == 0:
                    ok = True
                else:
                    for x in f.walk(rhs):
                        m = f.nodes[x]
                        if m["k"] == "BinaryOperator" and m["op"] == "*" and sz in (f.cv(m["c"][0]), f.cv(m["c"][1])):
                            ok = True
                        if m["k"] == "BinaryOperator" and m["op"] == "-" and all("uint8_t *" in f.nodes[f.strip(y, casts=False)].get("t", "") or
                                                                                 "uint8_t *" in f.nodes[y].get("t", "") for y in m["c"]):
                            ok = True
            ctx.check(R, ok, f.where(a), "slice_offset = %s is a byte offset" % f.text(rhs), key="C01.R8:%s" % f.name)
    g = prog.fn("mi_slice_first")
    ok = False
    for x in g.all(kind="BinaryOperator"):
        m = g.nodes[x]
        if m["op"] == "-" and g.mentions_field(m["c"][1], "slice_offset") and "uint8_t *" in g.nodes[m["c"][0]].get("t", ""):
            ok = True
    ctx.check(R, ok, g.where(), "mi_slice_first subtracts slice_offset from a byte pointer", key="C01.R8:reader")
    if n < 5:
        ctx.broke("C01.R8: fewer than 5 stores to slice_offset")
    ctx.floor(R, 7)


def r9(ctx, prog):
    R = ctx.rule("C01.R9", "module ownership: page list/counter fields are written only in alloc/free/page/heap/segment code; slice bookkeeping only in segment.c")
    PAGE_FIELDS = {"free", "local_free", "used", "capacity", "reserved"}
    PAGE_UNITS = {"alloc.c", "free.c", "page.c", "heap.c", "segment.c", "page-queue.c"}
    SLICE_FIELDS = {"slice_count", "slice_offset"}
    bad = []
    n = 0
    for f in prog.fns.values():
        unit = os.path.basename(f.file)
        for a, lhs, rhs, op in f.stores():
            l = f.strip(lhs)
            m = f.nodes[l]
            if m["k"] != "MemberExpr" or m.get("rec") != "mi_page_s":
                continue
            if m["fld"] in PAGE_FIELDS:
                n += 1
                if unit not in PAGE_UNITS:
                    bad.append("%s writes page->%s" % (f.where(a), m["fld"]))
            if m["fld"] in SLICE_FIELDS:
                n += 1
                if unit != "segment.c":
                    bad.append("%s writes slice->%s" % (f.where(a), m["fld"]))
    ctx.check(R, not bad, "all units", "%d stores to page/slice bookkeeping fields, all inside their owning modules" % n, key="C01.R9:owners", witness=bad)
    ctx.floor(R, 1)


def r10(ctx, prog):
    R = ctx.rule("C01.R10", "page flags: the flag byte is changed only through its setters (never as a whole), has_aligned is cleared only on all-free pages — "
                            "otherwise an interior pointer of a live aligned block is later freed as a block start and the next allocation overlaps its neighbour")
    shared.flag_integrity(ctx, R, prog)
    ctx.floor(R, 4)


def r11(ctx, prog):
    R = ctx.rule("C01.R11", "heap migration moves every page: mi_heap_absorb appends all queues 0..MI_BIN_FULL — a page left behind keeps xheap pointing at the heap structure "
                            "that mi_heap_delete frees next, and a later free into it writes queue links into freed (possibly re-allocated, live) memory")
    shared.absorb_covers_all_queues(ctx, R, prog)
    ctx.floor(R, 1)


def r12(ctx, prog):
    R = ctx.rule("C01.R12", "a live block keeps its contents across delayed purges: the commit/purge mask built for a slice range contains exactly the bits of the range, "
                            "for every offset and count including a whole 64-slice field — a missing bit leaves the pending purge of slices that were just handed out "
                            "un-cancelled, and the purge later decommits the middle of the live block")
    shared.commit_mask_exact(ctx, R, prog)
    ctx.floor(R, 1)


def run(ctx):
    ctx.explanation = ("Static decision of C01's code-shaped necessary conditions (all CFG paths): pairing of the free-list pop/push with the used counter, conservation of blocks "
                       "between the three lists, free-list extension bounded by the reserve computed from the page's own area, page free only when all-free, span "
                       "split/merge arithmetic and guards, units of the slice back-pointers, module-level ownership of the bookkeeping fields. "
                       "NOT decided: that these operations compose to `no overlap for every history`; list surgery in page-queue.c; byte contents.")
    for c in (["REL"] if ctx.tier == "quick" else ["REL", "SEC", "DBG"]):
        prog = ctx.prog(c)
        n0 = len(ctx.instances)
        r1(ctx, prog); r2(ctx, prog); r3(ctx, prog); r4(ctx, prog); r5(ctx, prog); r6(ctx, prog); r7(ctx, prog); r8(ctx, prog); r9(ctx, prog); r10(ctx, prog); r11(ctx, prog); r12(ctx, prog)
        if c != "REL":
            for i in ctx.instances[n0:]:
                i["site"] += " [%s]" % c
                if not i["ok"]:
                    i["key"] += ":" + c
