"""C02 — no double hand-out / corruption under concurrent alloc + cross-thread free (DESIGN §4 C02). Level: other.

Schedule-quantified; decided are protocol-shape conditions that every correct schedule argument needs: CAS-loop freshness (R1), CAS result
discipline / weak CAS only under retry (R2), the remote free path touches no owner-only page state (R3), the DELAYED_FREEING bracket (R4),
the owner waits out DELAYED_FREEING (R5), memory-order floors (R6), shared words change only by RMW (R7).
Not decided: linearizability / absence of double hand-out over interleavings (model-checking family).
"""
import rl, shared
from facts import AnalysisBroken

LEVEL = "other"
ACQ = {2, 4, 5}     # __ATOMIC_ACQUIRE, ACQ_REL, SEQ_CST
REL = {3, 4, 5}     # __ATOMIC_RELEASE, ACQ_REL, SEQ_CST


def cas_sites(prog):
    out = []
    for f in prog.fns.values():
        for e in f.all(kind="AtomicExpr"):
            if f.nodes[e]["aop"].startswith("cas"):
                out.append((f, e))
    return out


def expected_var(f, e):
    v = f.strip(f.nodes[e]["val1"])
    n = f.nodes[v]
    if n["k"] == "UnaryOperator" and n["op"] == "&":
        return rl.var_of(f, n["c"][0])
    return rl.var_of(f, v)


def fail_edges(f, e):
    cfg = f.cfg
    out = []
    for p, outs in cfg.edges.items():
        for q, lab in outs:
            for x, pol in cfg.facts(lab):
                if pol is False and (x == e or (f.nodes[x]["k"] != "BinaryOperator" and e in set(f.walk(x)) and f.nodes[x]["k"] in ("CallExpr", "AtomicExpr", "ImplicitCastExpr", "ParenExpr"))):
                    out.append(q)
    return out


def r1(ctx, prog):
    R = ctx.rule("C02.R1", "CAS-loop freshness: inside a retry loop nothing read from the `expected` variable before the CAS is stale — every such read "
                           "(the computation of `desired`, the link to the old head) is re-executed on the path from the CAS-failure edge back to the CAS")
    n = 0
    for f, e in cas_sites(prog):
        cfg = f.cfg
        if not cfg.in_loop(e):
            continue
        ev = expected_var(f, e)
        fails = fail_edges(f, e)
        if ev is None or not fails:
            continue
        # only retry loops: the CAS is reachable again from its own failure edge
        fails = [q for q in fails if cfg.reaches(q, cfg.pt(e))]
        if not fails:
            continue
        n += 1
        # S: the statements that carry the value read from `expected` into this CAS attempt:
        #   definitions of the `desired` variable that mention it, and list-link calls (mi_block_set_next*) that mention it
        S = set()
        dv = rl.var_of(f, f.nodes[e]["val2"])
        if dv is not None:
            for a, rhs, op in f.var_defs(dv):
                if rhs is not None and f.mentions_decl(rhs, ev) and cfg.pt(a) is not None and cfg.reaches(cfg.pt(a), cfg.pt(e)):
                    S.add(a)
        elif f.mentions_decl(f.nodes[e]["val2"], ev):
            S.add(e)   # desired is computed from `expected` in the CAS argument itself: always fresh
        for c in f.calls(("mi_block_set_next", "mi_block_set_nextx")):
            if any(f.mentions_decl(x, ev) for x in f.nodes[c]["args"]) and cfg.reaches(cfg.pt(c), cfg.pt(e)):
                S.add(c)
        if not S:
            ctx.ok(R, f.where(e), "CAS on %s: desired value does not depend on the expected value (constant / loop-invariant)" % f.text(f.nodes[e]["ptr"])[:40])
            continue
        w = None
        for q in fails:
            if e in S:
                break
            w = w or cfg.must_pass([q], [cfg.pt(e)], lambda y: y in S)
        ctx.check(R, w is None, f.where(e), "CAS on %s: after a failed attempt the desired value / list link (%d sites) is recomputed from the refreshed expected value before the next attempt"
                  % (f.text(f.nodes[e]["ptr"])[:40], len(S)), key="C02.R1:%s:%s" % (f.name, f.text(f.nodes[e]["ptr"])[:30]), witness=w)
    ctx.floor(R, 15)


def _inside_cas_args(f, x, e):
    y = x
    while y is not None:
        if y == e:
            return True
        y = f.parent.get(y)
    return False


RESULT_EXCEPTIONS = {
    ("mi_arena_static_zalloc", "mi_arena_static_top"): "roll-back of a failed bump allocation: if it loses the race the static space is merely not reclaimed",
    ("mi_arenas_unsafe_destroy", "mi_arena_count"): "unsafe destroy at process exit, single-threaded by contract",
    ("_mi_os_get_aligned_hint", "aligned_base"): "address hint wrap-around: any value is acceptable",
    ("unix_mmap", "large_page_try_ok"): "heuristic back-off counter",
    ("mi_arena_schedule_purge", "mi_arenas_purge_expire"): "global expiry is only a hint: losing the race means another thread already set one",
    ("mi_arena_try_purge", "purge_expire"): "reset/refresh of the expiry; a concurrent setter's value is equally good",
}


def r2(ctx, prog):
    R = ctx.rule("C02.R2", "every CAS result is used (branch, return, stored) and a weak CAS is only used where failure retries or falls through to an explicit alternative")
    n = 0
    for f, e in cas_sites(prog):
        n += 1
        ptr = f.text(f.nodes[e]["ptr"])
        ok, how = rl.value_checked(f, e)
        if not ok:
            fld = next((k for k in RESULT_EXCEPTIONS if k[0] == f.name and k[1] in ptr), None)
            if fld is not None:
                ctx.ok(R, f.where(e), "CAS result ignored — listed exception: %s" % RESULT_EXCEPTIONS[fld])
                continue
        ctx.check(R, ok, f.where(e), "result of the CAS on %s is %s" % (ptr[:40], how), key="C02.R2:%s:%s" % (f.name, ptr[:30]))
        if f.nodes[e]["aop"] == "cas_weak":
            cfg = f.cfg
            fails = fail_edges(f, e)
            retry = any(cfg.reaches(q, cfg.pt(e)) for q in fails)
            alt = f.name == "mi_thread_data_free"   # failure: next cache slot, finally _mi_os_free (checked by C11.R4)
            ctx.check(R, bool(fails) and (retry or alt), f.where(e), "weak CAS on %s: a spurious failure %s" % (ptr[:40], "retries" if retry else "falls through to the next slot / the OS free" if alt else "is NOT handled"),
                      key="C02.R2:weak:%s:%s" % (f.name, ptr[:30]))
    if n < 28:
        ctx.broke("C02.R2: %d CAS sites, 28 confirmed on the pinned tree" % n)
    ctx.floor(R, 28)


OWNER_ONLY = {"free", "local_free", "used", "capacity", "reserved", "flags", "full_aligned", "in_full", "has_aligned", "retire_expire", "next", "prev", "free_is_zero", "is_zero_init"}
CUT = {"_mi_segment_attempt_reclaim", "mi_free", "_mi_error_message", "_mi_warning_message", "_mi_verbose_message", "_mi_assert_fail", "mi_heap_get_default",
       "_mi_stat_increase", "_mi_stat_decrease", "_mi_stat_counter_increase", "mi_stat_free", "_mi_os_reset"}
REMOTE_EXCEPTIONS = {
    "_mi_usable_size": "reads flags.has_aligned of the block in hand: the flag was set before the pointer escaped (single-block huge page / debug fill); benign, confirmed by TSan during design",
    "mi_page_usable_aligned_size_of": "as _mi_usable_size",
    "mi_page_has_aligned": "as _mi_usable_size (only reachable through it)",
}


def r3(ctx, prog):
    R = ctx.rule("C02.R3", "effect separation: code reachable from the cross-thread free (cutting at ownership transfer and diagnostics) neither reads nor writes owner-only page state")
    # the remote path: everything below the remote free primitive, plus its private wrapper when there is one
    roots = ["mi_free_block_mt", "_mi_page_ptr_unalign"] + [c for c in rl.callers_of(prog, "mi_free_block_mt") if c in prog.fns and prog.fns[c].d.get("static") and
                                                             not any(True for _ in prog.fns[c].calls(("mi_free_block_local", "mi_free_generic_local")))]
    reach = prog.reachable(roots, cut=CUT)
    bad = []
    n = 0
    for nm in sorted(reach):
        f = prog.fns.get(nm)
        if f is None:
            continue
        for m in f.all(kind="MemberExpr"):
            node = f.nodes[m]
            if node.get("rec") not in ("mi_page_s", "mi_page_flags_s", "") or node["fld"] not in OWNER_ONLY:
                continue
            if node.get("rec") == "" and node["fld"] not in ("in_full", "has_aligned", "full_aligned", "x"):
                continue
            # `next` of mi_block_t is not page state
            if node["fld"] in ("next", "prev") and node.get("rec") != "mi_page_s":
                continue
            n += 1
            if nm in REMOTE_EXCEPTIONS:
                continue
            if node.get("macro") in ("mi_assert_internal", "mi_assert", "mi_assert_expensive"):
                continue   # debug assertions are not part of the protocol
            bad.append("%s touches page->%s (%s)" % (f.where(m), node["fld"], f.access(m)))
    ctx.check(R, not bad, "call graph of mi_free_generic_mt (%d functions)" % len(reach), "no access to owner-only page fields on the remote path", key="C02.R3:remote", witness=bad[:6])
    for nm, why in REMOTE_EXCEPTIONS.items():
        if nm in reach:
            ctx.ok(R, prog.fn(nm).where(), "listed exception: %s" % why)
    for own in ("_mi_page_retire", "_mi_page_unfull", "mi_page_queue_remove", "mi_page_queue_enqueue_from", "_mi_page_free", "_mi_page_free_collect"):
        ctx.check(R, own not in reach, "call graph of mi_free_generic_mt", "owner-only function %s is not reachable from the remote path" % own, key="C02.R3:call:%s" % own)
    sites = [(prog.fn(cn), c) for cn in rl.callers_of(prog, "mi_free_block_mt") for c in prog.fn(cn).calls("mi_free_block_mt")]
    for f, c in sites:
        vals = rl.values_of(f, rl.arg(f, c, 2))
        ok = any(rl.is_call(f, v, "_mi_page_ptr_unalign") for v in vals) and not any(f.nodes[v]["k"] == "ConditionalOperator" for v in vals)
        ctx.check(R, ok, f.where(c), "the remote path un-aligns unconditionally instead of reading the has_aligned flag (issue #865)", key="C02.R3:unalign")
    if not sites:
        ctx.broke("C02.R3: no call of mi_free_block_mt")
    if len(reach) < 12:
        ctx.broke("C02.R3: remote call graph has only %d functions" % len(reach))
    ctx.floor(R, 8)


def r4(ctx, prog):
    R = ctx.rule("C02.R4", "DELAYED_FREEING bracket: the remote path reads page->xheap only after its CAS set MI_DELAYED_FREEING, and resets the flag to MI_NO_DELAYED_FREE on every path afterwards")
    f = prog.fn("mi_free_block_delayed_mt")
    cfg = f.cfg
    loads = [e for e in f.all(kind="AtomicExpr") if f.nodes[e]["aop"] == "load" and f.mentions_field(f.nodes[e]["ptr"], "xheap")]
    cas = [e for e in f.all(kind="AtomicExpr") if f.nodes[e]["aop"].startswith("cas") and f.mentions_field(f.nodes[e]["ptr"], "xthread_free")]
    ctx.check(R, len(loads) == 1 and len(cas) == 2, f.where(), "one xheap load, two xthread_free CAS loops (set flag / reset flag)", key="C02.R4:shape")
    if len(loads) == 1 and len(cas) == 2:
        first, second = (cas[0], cas[1]) if cfg.reaches(cfg.after(cas[0]), cfg.pt(cas[1])) else (cas[1], cas[0])
        def sets(flag):
            return any(rl.is_call(f, c, "mi_tf_set_delayed") and shared.enum_arg_is(f, c, 1, flag) for c in f.calls("mi_tf_set_delayed"))
        ctx.check(R, sets("MI_DELAYED_FREEING") and sets("MI_NO_DELAYED_FREE"), f.where(), "the flag is set to MI_DELAYED_FREEING and later to MI_NO_DELAYED_FREE", key="C02.R4:flags")
        w = rl.precedes(f, lambda e: e == first, loads[0])
        ctx.check(R, w is None, f.where(loads[0]), "page->xheap is read only after the first CAS loop completed", key="C02.R4:after_cas", witness=w)
        ud = [dd["d"] for _, dd in rl.local_decl(f, lambda dd: dd["t"] == "_Bool")]
        w = cfg.guarded(cfg.pt(loads[0]), lambda e, pol: isinstance(e, int) and pol and rl.var_of(f, e) in ud)
        ctx.check(R, w is None, f.where(loads[0]), "and only on the use_delayed edge (the flag was really set by this thread)", key="C02.R4:use_delayed", witness=w)
        w = rl.followed_by(f, loads[0], lambda e: e == second)
        ctx.check(R, w is None, f.where(loads[0]), "every path after the xheap read passes the CAS loop that resets the flag", key="C02.R4:reset", witness=w)
        # the reset loop's desired value is built from MI_NO_DELAYED_FREE
        dv = rl.var_of(f, f.nodes[second]["val2"])
        ok = dv is not None and any(rhs is not None and any(rl.is_call(f, x, "mi_tf_set_delayed") and shared.enum_arg_is(f, x, 1, "MI_NO_DELAYED_FREE") for x in f.walk(rhs))
                                    and cfg.reaches(cfg.after(loads[0]), cfg.pt(a)) for a, rhs, op in f.var_defs(dv))
        ctx.check(R, ok, f.where(second), "the second loop stores MI_NO_DELAYED_FREE", key="C02.R4:reset_value")
    ctx.floor(R, 6)


def r5(ctx, prog):
    R = ctx.rule("C02.R5", "the owner waits out DELAYED_FREEING: never-delayed ≺ drain ≺ abandon/destroy; queue append re-targets xheap then waits; the retry loop re-loads the flag word")
    shared.abandon_order(ctx, R, prog)
    ctx.floor(R, 10)


FLOORS = [  # (function, field substring, operation kinds, required set, what)
    ("mi_free_block_delayed_mt", "xthread_free", ("cas_weak", "cas_strong"), REL, "push of a freed block publishes its link"),
    ("mi_free_block_delayed_mt", "thread_delayed_free", ("cas_weak", "cas_strong"), REL, "push on the heap's delayed list"),
    ("mi_free_block_delayed_mt", "xheap", ("load",), ACQ, "the heap pointer is dereferenced"),
    ("mi_page_set_heap", "xheap", ("store",), REL, "publication of the owning heap"),
    ("_mi_page_queue_append", "xheap", ("store",), REL, "publication of the new owning heap"),
    ("_mi_page_thread_free_collect", "xthread_free", ("cas_weak", "cas_strong", "exchange"), ACQ, "take-over: the list is walked afterwards"),
    ("_mi_heap_delayed_free_partial", "thread_delayed_free", ("cas_weak", "cas_strong", "exchange"), None, "take-over (acquire) / re-push (release)"),
    ("_mi_page_try_use_delayed_free", "xthread_free", ("load",), ACQ, "the loop may leave without a CAS"),
    ("_mi_page_try_use_delayed_free", "xthread_free", ("cas_weak", "cas_strong"), REL, "flag change publishes"),
    ("_mi_arena_segment_mark_abandoned", "thread_id", ("store",), REL, "publication of an abandoned segment"),
    ("_mi_arena_segment_clear_abandoned", "thread_id", ("store",), REL, "ownership claim"),
    ("mi_segment_reclaim", "thread_id", ("store",), REL, "ownership claim"),
    ("_mi_bitmap_claim", "*", ("fetch_or",), {4, 5}, "bitmap claim is acquire+release"),
    ("_mi_bitmap_unclaim", "*", ("fetch_and",), {4, 5}, "bitmap release is acquire+release"),
    ("_mi_bitmap_try_claim", "*", ("cas_strong", "cas_weak"), {4, 5}, "bitmap claim"),
    ("_mi_bitmap_try_find_claim_field", "*", ("cas_strong", "cas_weak"), {4, 5}, "bitmap claim"),
    ("mi_bitmap_try_find_claim_field_across", "*", ("cas_strong", "cas_weak"), {4, 5}, "bitmap claim across fields"),
    ("_mi_bitmap_claim_across", "*", ("fetch_or",), {4, 5}, "bitmap claim across fields"),
    ("_mi_bitmap_unclaim_across", "*", ("fetch_and",), {4, 5}, "bitmap release across fields"),
    ("mi_arena_add", "mi_arenas", ("store",), REL, "publication of a new arena"),
    ("mi_arena_from_index", "mi_arenas", ("load",), ACQ, "the arena is dereferenced"),
    ("mi_segment_map_index_of", "mi_segment_map", ("cas_strong", "cas_weak"), REL, "publication of a map part"),
    ("mi_thread_data_free", "td_cache", ("cas_weak", "cas_strong"), REL, "publication of cached thread data"),
    ("mi_thread_data_zalloc", "td_cache", ("exchange",), ACQ, "take-over of cached thread data"),
]


def r6(ctx, prog):
    R = ctx.rule("C02.R6", "memory-order floors: publications are at least release, consumptions that dereference what was published at least acquire (stronger accepted)")
    for fname, fld, ops, need, what in FLOORS:
        f = prog.fn(fname)
        sites = [e for e in f.all(kind="AtomicExpr") if f.nodes[e]["aop"] in ops and (fld == "*" or fld in f.text(f.nodes[e]["ptr"]))]   # "*": every such operation of the function (bitmap words reached through locals)
        if not sites:
            ctx.fail(R, f.where(), "no %s on %s found (the operation is no longer atomic?)" % ("/".join(ops), fld), key="C02.R6:%s:%s:missing" % (fname, fld))
            continue
        for e in sites:
            o = f.nodes[e].get("ord")
            if need is None:
                # partial drain: the take-over CAS (desired NULL) needs acquire, the re-push needs release
                need2 = ACQ if f.cv(f.nodes[e]["val2"]) == 0 else REL
            else:
                need2 = need
            ctx.check(R, o in need2, f.where(e), "%s on %s has order %s; required %s (%s)" % (f.nodes[e]["aop"], fld, o, sorted(need2), what), key="C02.R6:%s:%s" % (fname, fld))
    ctx.floor(R, 24)


PLAIN_OK = {
    ("mi_heap_reset_pages", "thread_delayed_free"): "the heap gave up all its pages first (absorb/destroy): no thread can push any more",
    ("_mi_heap_init", "thread_id"): "heap under construction, not yet visible",
    ("mi_heap_main_init", "thread_id"): "main heap initialised before any other thread can see it",
    ("mi_segment_alloc", "thread_id"): "fresh segment, not yet visible to other threads",
    ("mi_segment_os_free", "thread_id"): "segment is being returned to the OS; all blocks are free",
    ("mi_segment_abandon", "thread_id"): "followed by the release store in _mi_arena_segment_mark_abandoned before publication (C09.R3)",
}


def r7(ctx, prog):
    R = ctx.rule("C02.R7", "shared words change only by RMW: page->xthread_free and heap->thread_delayed_free are written only by CAS/exchange (listed exceptions), "
                           "xheap and thread_id only by atomic stores (listed exceptions)")
    n = 0
    for f in prog.fns.values():
        for a, lhs, rhs, op in f.stores():
            l = f.strip(lhs)
            node = f.nodes[l]
            if node["k"] == "MemberExpr" and node["fld"] in ("xthread_free", "thread_delayed_free", "xheap", "thread_id") and node.get("rec") in ("mi_page_s", "mi_heap_s", "mi_segment_s"):
                n += 1
                key = (f.name, node["fld"])
                ctx.check(R, key in PLAIN_OK, f.where(a), "plain store to %s: %s" % (node["fld"], PLAIN_OK.get(key, "another thread may hold this object — must be an atomic RMW")),
                          key="C02.R7:plain:%s:%s" % key)
        for e in f.all(kind="AtomicExpr"):
            node = f.nodes[e]
            if node["aop"] in ("store", "init") and any(f.mentions_field(node["ptr"], x) for x in ("xthread_free", "thread_delayed_free")):
                n += 1
                ctx.fail(R, f.where(e), "atomic *store* to %s loses concurrent pushes — must be a CAS or exchange" % f.text(node["ptr"]), key="C02.R7:store:%s" % f.name)
            elif node["aop"] in ("cas_weak", "cas_strong", "exchange") and any(f.mentions_field(node["ptr"], x) for x in ("xthread_free", "thread_delayed_free")):
                n += 1
                ctx.ok(R, f.where(e), "%s on %s" % (node["aop"], f.text(node["ptr"])[:40]))
    # the take-over of the page list is one RMW between the load of the head and its first dereference
    g = prog.fn("_mi_page_thread_free_collect")
    rmw = [e for e in g.all(kind="AtomicExpr") if g.nodes[e]["aop"] in ("cas_weak", "cas_strong", "exchange") and g.mentions_field(g.nodes[e]["ptr"], "xthread_free")]
    ctx.check(R, len(rmw) == 1, g.where(), "_mi_page_thread_free_collect takes the list with exactly one RMW", key="C02.R7:takeover")
    for c in g.calls("mi_block_next"):
        w = rl.precedes(g, lambda e: e in rmw, c)
        ctx.check(R, w is None, g.where(c), "the taken list is walked only after the RMW", key="C02.R7:walk_after", witness=w)
    ctx.floor(R, 12)


def r8(ctx, prog):
    R = ctx.rule("C02.R8", "the hand-off is final: once the remote free has published the block (CAS onto the page's thread-free list or the heap's delayed list) "
                           "the freeing thread touches neither the block nor the page again — the owner may already have re-used or released them")
    f = prog.fn("mi_free_block_delayed_mt")
    cfg = f.cfg
    page_d, blk = f.param_id(0), f.param_id(1)

    def mentions(fn, pts, ds):
        out = []
        for p in pts:
            e = fn.cfg.elem_at(p)
            if e is not None and fn.nodes[e]["k"] == "DeclRefExpr" and fn.nodes[e]["d"] in ds:
                out.append(e)
        return out
    cas = [e for e in f.all(kind="AtomicExpr") if f.nodes[e]["aop"].startswith("cas")]
    heap_push = [e for e in cas if f.mentions_field(f.nodes[e]["ptr"], "thread_delayed_free")]
    page_cas = [e for e in cas if f.mentions_field(f.nodes[e]["ptr"], "xthread_free")]
    n = 0
    for e in heap_push:
        for q in [q for p, q, x, pol in rl.edges_with_fact(f, lambda x, pol: isinstance(x, int) and pol and f.strip(x) == e)]:
            n += 1
            bad = mentions(f, cfg.reach([q]), {blk})
            ctx.check(R, not bad, f.where(e), "after the successful push onto heap->thread_delayed_free the block is not referenced again%s" % (": " + f.loc(bad[0]) if bad else ""),
                      key="C02.R8:heap_push")
    # the page-list route: first CAS succeeded with the block linked in (use_delayed false)
    ud = [dd["d"] for _, dd in rl.local_decl(f, lambda dd: dd["t"] == "_Bool")]
    if page_cas and ud:
        first = next((c for c in page_cas if all(c == o or cfg.reaches(cfg.after(c), cfg.pt(o)) for o in page_cas)), page_cas[0])
        delayed = lambda x, pol: pol and rl.var_of(f, x) in ud
        for q in [q for p, q, x, pol in rl.edges_with_fact(f, lambda x, pol: isinstance(x, int) and pol and f.strip(x) == first)]:
            n += 1
            bad = mentions(f, cfg.reach([q], edge_ok=rl.no_contradiction(f, delayed)), {blk, page_d})
            ctx.check(R, not bad, f.where(first), "after the successful push onto page->xthread_free (not the delayed route) neither block nor page is referenced again%s"
                      % (": " + f.loc(bad[0]) if bad else ""), key="C02.R8:page_push")
    # callers: nothing after the call
    for cname in rl.callers_of(prog, "mi_free_block_delayed_mt"):
        g = prog.fn(cname)
        segs = {g.param_id(k) for k, p_ in enumerate(g.d["params"]) if "mi_segment_t" in p_["t"] or "mi_page_t" in p_["t"] or "mi_block_t" in p_["t"]}
        for c in g.calls("mi_free_block_delayed_mt"):
            n += 1
            ds = {rl.var_of(g, a) for a in g.nodes[c]["args"]} | segs
            ds.discard(None)
            bad = mentions(g, g.cfg.reach([g.cfg.after(c)]), ds)
            ctx.check(R, not bad, g.where(c), "%s does not touch the block, its page or its segment after mi_free_block_delayed_mt returned%s" % (cname, ": " + g.loc(bad[0]) if bad else ""),
                      key="C02.R8:caller:%s" % cname)
    if n < 3:
        ctx.broke("C02.R8: only %d hand-off sites found (3 confirmed)" % n)
    ctx.floor(R, 3)


def run(ctx):
    ctx.explanation = ("Static decision of protocol-shape necessary conditions of C02 over all 29 CAS sites and 150+ atomic operations: refresh of every value read from the "
                       "`expected` variable on the retry path, CAS result discipline, field-effect separation of the cross-thread free's call graph, the DELAYED_FREEING "
                       "bracket (dominance + must-pass), owner-side ordering, a frozen memory-order floor table (one reason per site), RMW-only updates of the shared list "
                       "words. NOT decided: linearizability / absence of double hand-out over interleavings.")
    for c in (["REL"] if ctx.tier == "quick" else ["REL", "SEC", "DBG"]):
        prog = ctx.prog(c)
        n0 = len(ctx.instances)
        r1(ctx, prog); r2(ctx, prog); r3(ctx, prog); r4(ctx, prog); r5(ctx, prog); r6(ctx, prog); r7(ctx, prog); r8(ctx, prog)
        if c != "REL":
            for i in ctx.instances[n0:]:
                i["site"] += " [%s]" % c
                if not i["ok"]:
                    i["key"] += ":" + c
