"""C08 — remotely freed memory is never lost; bounded producer/consumer (DESIGN §4 C08). Level: other.

Decided: order inside _mi_free_delayed_block (R1), the drain loses no block (R2), exactly one push per remote free (R3), drains are
reached without force (R4), full pages come back (R5), the owner's recount uses the walked count (R6).
Not decided: boundedness of memory over time; "owner collects => no live pages" over interleavings.
"""
import rl, shared
from facts import AnalysisBroken

LEVEL = "other"


def r1(ctx, prog):
    R = ctx.rule("C08.R1", "_mi_free_delayed_block: re-arm delayed free ≺ collect the page's free lists ≺ local free with check_full=true; a refused re-arm returns false without freeing")
    f = prog.fn("_mi_free_delayed_block")
    cfg = f.cfg
    arm = [c for c in f.calls("_mi_page_try_use_delayed_free")]
    col = [c for c in f.calls("_mi_page_free_collect")]
    fre = [c for c in f.calls("mi_free_block_local")]
    ctx.check(R, len(arm) == 1 and len(col) >= 1 and len(fre) == 1, f.where(), "the three steps are present", key="C08.R1:shape")
    if arm and col and fre:
        shared.rearm_respects_never(ctx, R, prog)
        for c in col:
            w = cfg.guarded(cfg.pt(c), rl.fact_call_true(f, "_mi_page_try_use_delayed_free"))
            ctx.check(R, w is None, f.where(c), "collect only after the re-arm succeeded", key="C08.R1:order1", witness=w)
        w = rl.precedes(f, lambda e: e in col, fre[0])
        ctx.check(R, w is None, f.where(fre[0]), "the page's lists are collected before the block is freed locally", key="C08.R1:order2", witness=w)
        ctx.check(R, f.cv(rl.arg(f, fre[0], 3)) == 1, f.where(fre[0]), "mi_free_block_local(.., check_full = true): a full page is moved back", key="C08.R1:check_full")
        hit = [q for p, q, e, pol in rl.edges_with_fact(f, rl.fact_call_false(f, "_mi_page_try_use_delayed_free"))]
        ok = bool(hit)
        for q in hit:
            pts = cfg.reach([q])
            ok = ok and rl.returns_only(f, q, 0) and cfg.pt(fre[0]) not in pts
        ctx.check(R, ok, f.where(), "a refused re-arm returns false and frees nothing", key="C08.R1:refused")
    ctx.floor(R, 6)


def r2(ctx, prog):
    R = ctx.rule("C08.R2", "_mi_heap_delayed_free_partial loses no block: list taken by CAS to NULL, next link read before the block is freed, a refused block is re-pushed")
    f = prog.fn("_mi_heap_delayed_free_partial")
    cfg = f.cfg
    cas = [e for e in f.all(kind="AtomicExpr") if f.nodes[e]["aop"].startswith("cas") and f.mentions_field(f.nodes[e]["ptr"], "thread_delayed_free")]
    take = [e for e in cas if f.cv(f.nodes[e]["val2"]) == 0]
    ctx.check(R, len(take) == 1, f.where(), "the list is taken over with one CAS to NULL", key="C08.R2:take")
    frees = list(f.calls("_mi_free_delayed_block"))
    nexts = [dd for _, dd in rl.var_init_from(f, lambda j: rl.is_call(f, j, "mi_block_nextx"))]
    ctx.check(R, len(frees) == 1 and len(nexts) >= 1, f.where(), "one free per visited block, next link bound to a local", key="C08.R2:shape")
    if frees and nexts:
        w = rl.precedes(f, lambda e: f.nodes[e]["k"] == "DeclStmt" and any(dd["d"] == nexts[0]["d"] for dd in f.nodes[e]["decls"]), frees[0],
                        starts=[cfg.after(t) for t in take] if take else None)
        ctx.check(R, w is None, f.where(frees[0]), "the next link is read before _mi_free_delayed_block(block)", key="C08.R2:next_first", witness=w)
        bd = rl.var_of(f, rl.arg(f, frees[0], 0))
        # the walk is complete: once the list was taken, the function is left only with the cursor at NULL (no budget, no early
        # exit that hands "the rest" back — a single re-insert keeps one block and drops everything linked behind it)
        if take and bd is not None:
            wz = cfg.guarded(cfg.exit, lambda e, pol: isinstance(e, int) and rl.fact_null(f, e, pol, lambda j: f.nodes[j]["k"] == "DeclRefExpr" and f.nodes[j]["d"] == bd), starts=[cfg.after(take[0])])
            ctx.check(R, wz is None, f.where(), "after the take-over every path to the return has walked the list to its end (block == NULL)", key="C08.R2:complete", witness=wz)
        # advance uses the saved link
        adv = [a for a, rhs, op in f.var_defs(bd) if op == "=" and rhs is not None and rl.var_of(f, rhs) == nexts[0]["d"]]
        ctx.check(R, len(adv) == 1, f.where(), "the walk advances through the saved link", key="C08.R2:advance")
        hit = [q for p, q, e, pol in rl.edges_with_fact(f, rl.fact_call_false(f, "_mi_free_delayed_block"))]
        repush = [e for e in cas if e not in take and rl.var_of(f, f.nodes[e]["val2"]) == bd]
        ok = bool(hit) and bool(repush)
        w = None
        for q in hit:
            goals = [cfg.pt(a) for a in adv] + cfg.exit_points()
            w = w or cfg.must_pass([q], goals, lambda e: e in repush)
        ctx.check(R, ok and w is None, f.where(), "a block whose free was refused is re-pushed on thread_delayed_free before the walk advances", key="C08.R2:repush", witness=w)
        for e in repush:
            w = rl.precedes(f, rl.call_to("mi_block_set_nextx")(f), e, starts=[q for q in hit])
            ctx.check(R, w is None, f.where(e), "the re-pushed block is linked to the current head before the CAS", key="C08.R2:link", witness=w)
    g = prog.fn("_mi_heap_delayed_free_all")
    ok = any(g.cfg.in_loop(c) for c in g.calls("_mi_heap_delayed_free_partial"))
    ctx.check(R, ok, g.where(), "_mi_heap_delayed_free_all repeats the partial drain until it reports all freed", key="C08.R2:all")
    ctx.floor(R, 7)


def r3(ctx, prog):
    R = ctx.rule("C08.R3", "every path through mi_free_block_delayed_mt publishes the block exactly once: on the page's thread-free list or on the heap's delayed list")
    f = prog.fn("mi_free_block_delayed_mt")
    cfg = f.cfg
    blk = f.param_id(1)
    cas = [e for e in f.all(kind="AtomicExpr") if f.nodes[e]["aop"].startswith("cas")]
    page_push = [e for e in cas if f.mentions_field(f.nodes[e]["ptr"], "xthread_free")]
    heap_push = [e for e in cas if f.mentions_field(f.nodes[e]["ptr"], "thread_delayed_free") and rl.var_of(f, f.nodes[e]["val2"]) == blk]
    ctx.check(R, len(page_push) == 2 and len(heap_push) == 1, f.where(), "one CAS loop on xthread_free for the push/flag, one on thread_delayed_free, one flag reset", key="C08.R3:shape")
    # the block is linked in (mi_block_set_next(page, block, ..)) exactly on the path that does not take the delayed route
    links = [c for c in f.calls("mi_block_set_next") if rl.var_of(f, rl.arg(f, c, 1)) == blk]
    linkx = [c for c in f.calls("mi_block_set_nextx") if rl.var_of(f, rl.arg(f, c, 1)) == blk]
    ctx.check(R, len(links) == 1 and len(linkx) == 1, f.where(), "the block is linked once per route", key="C08.R3:links")
    # every path entry->exit passes the link of one route (exception: the asserted-impossible heap == NULL edge)
    def heap_null(lab, p, q):
        return not any(isinstance(e, int) and rl.cmp_parts(f, e) is not None and rl.fact_null(f, e, pol, lambda j: "mi_heap_t" in f.nodes[j].get("t", "")) for e, pol in cfg.facts(lab))
    w = cfg.must_pass([cfg.entry], cfg.exit_points(), lambda e: e in links or e in linkx, edge_ok=heap_null)
    ctx.check(R, w is None, f.where(), "every path links the block into one of the two lists (exception: heap == NULL, asserted impossible)", key="C08.R3:must", witness=w)
    # after the page-list link the CAS publishes tfreex built from the block
    for c in links:
        w = rl.followed_by(f, c, lambda e: e in page_push)
        ctx.check(R, w is None, f.where(c), "the linked block is published by the xthread_free CAS", key="C08.R3:publish", witness=w)
    g = prog.fn("mi_free_block_mt")
    ok = rl.must_call(prog, "mi_free_block_mt", ("mi_free_block_delayed_mt", "mi_free", "_mi_segment_huge_page_free"))
    ctx.check(R, ok, g.where(), "every path of mi_free_block_mt ends in the delayed push (or the local free after a reclaim)", key="C08.R3:mt")
    ctx.floor(R, 5)


def r4(ctx, prog):
    R = ctx.rule("C08.R4", "drains run without force: the generic allocation path drains the delayed list periodically, collect always drains, page search collects each page it visits")
    f = prog.fn("_mi_malloc_generic")
    cfg = f.cfg
    cs = list(f.calls("_mi_heap_delayed_free_partial"))
    ctx.check(R, len(cs) >= 1, f.where(), "_mi_malloc_generic calls _mi_heap_delayed_free_partial", key="C08.R4:generic:call")
    for c in cs:
        def periodic(e, pol):
            if not isinstance(e, int):
                return False
            return rl.establishes(f, e, pol, ">=", lambda j: f.mentions_field(j, "generic_count"), rl.is_const(f))
        w = cfg.guarded(cfg.pt(c), periodic)
        thr = sorted({f.cv(cc[2]) + (1 if cc[0] == ">" else 0) for outs in cfg.edges.values() for q_, lab in outs for e, pol in cfg.facts(lab) if isinstance(e, int)
                      for cc in [rl.oriented(f, e, pol, lambda j: f.mentions_field(j, "generic_count"), rl.is_const(f))] if cc is not None and cc[0] in (">=", ">")})
        ctx.check(R, w is None and thr and max(thr) <= 1000, f.where(c), "drain every N generic allocations (N = %s)" % thr, key="C08.R4:generic:period", witness=w)
        resets = [a for a, l, rhs, op in f.field_stores("generic_count") if rhs is not None and f.cv(rhs) == 0]
        ctx.check(R, bool(resets), f.where(), "the counter is reset after the drain", key="C08.R4:generic:reset")
    g = prog.fn("mi_heap_collect_ex")
    cfg = g.cfg
    def uninit(lab, p, q):
        # the early return for NULL / uninitialised heaps
        return not any(isinstance(e, int) and (rl.fact_null(g, e, pol, rl.is_var(g, g.param_id(0))) or
                                               ((not pol) and rl.is_call(g, g.strip(e), "mi_heap_is_initialized"))) for e, pol in cfg.facts(lab))
    w = cfg.must_pass([cfg.entry], cfg.exit_points(), rl.call_to("_mi_heap_delayed_free_all")(g), edge_ok=uninit)
    ctx.check(R, w is None, g.where(), "every collect of an initialised heap drains the delayed list", key="C08.R4:collect", witness=w)
    h = prog.fn("mi_page_queue_find_free_ex")
    cs = [c for c in h.calls("_mi_page_free_collect")]
    ctx.check(R, bool(cs) and all(h.cfg.in_loop(c) for c in cs), h.where(), "the page search collects the free lists of every page it visits", key="C08.R4:find")
    k = prog.fn("mi_find_free_page")
    ctx.check(R, any(True for _ in k.calls("_mi_page_free_collect")), k.where(), "the fast page lookup collects the first page", key="C08.R4:find_first")
    ctx.check(R, rl.may_call(prog, "_mi_malloc_generic", "mi_page_queue_find_free_ex"), f.where(), "the generic path reaches the page search", key="C08.R4:reach")
    ctx.floor(R, 7)


def r5(ctx, prog):
    R = ctx.rule("C08.R5", "full pages come back: moving to the full queue is followed by a collect; a local free into a full page un-fulls it; mi_free's fast path excludes full pages")
    f = prog.fn("mi_page_to_full")
    for c in rl.calls_doing(prog, f, ("mi_page_queue_enqueue_from_ex",)):
        w = rl.followed_by(f, c, rl.call_to("_mi_page_free_collect")(f))
        ctx.check(R, w is None, f.where(c), "after the move to the full queue the page is collected (closes the race with a concurrent first remote free)", key="C08.R5:to_full", witness=w)
    g = prog.fn("mi_free_block_local")
    cfg = g.cfg
    cf = g.param_id(3)
    for c in g.calls("_mi_page_unfull"):
        w1 = cfg.guarded(cfg.pt(c), lambda e, pol: isinstance(e, int) and pol and rl.var_of(g, e) == cf)
        w2 = cfg.guarded(cfg.pt(c), rl.fact_call_true(g, "mi_page_is_in_full"))
        ctx.check(R, w1 is None and w2 is None, g.where(c), "_mi_page_unfull on `check_full && mi_page_is_in_full(page)`", key="C08.R5:unfull", witness=w1 or w2)
    ctx.check(R, any(True for _ in g.calls("_mi_page_unfull")), g.where(), "mi_free_block_local can un-full a page", key="C08.R5:unfull:present")
    h = prog.fn("mi_free")
    cfg = h.cfg
    for c in h.calls("mi_free_block_local"):
        if h.cv(rl.arg(h, c, 3)) == 0:
            w = cfg.guarded(cfg.pt(c), rl.fact_field_eq(h, "full_aligned", 0))
            ctx.check(R, w is None, h.where(c), "check_full=false only on the `page->flags.full_aligned == 0` edge", key="C08.R5:fast", witness=w)
    m = prog.fn("mi_free_generic_local")
    for c in m.calls("mi_free_block_local"):
        ctx.check(R, m.cv(rl.arg(m, c, 3)) == 1, m.where(c), "the generic local path checks for a full page", key="C08.R5:generic")
    u = prog.fn("_mi_page_unfull")
    ctx.check(R, bool(rl.calls_doing(prog, u, ("mi_page_queue_enqueue_from_ex",))), u.where(),
              "_mi_page_unfull moves the page back to its size queue", key="C08.R5:unfull:move")
    ctx.floor(R, 6)


def r6(ctx, prog):
    R = ctx.rule("C08.R6", "the owner subtracts exactly the number of blocks it walked on the taken-over list from page->used")
    shared.recount(ctx, R, prog)
    ctx.floor(R, 3)


def run(ctx):
    ctx.explanation = ("Static decision of C08's code-shaped necessary conditions: ordering inside the delayed-free consumer, no-loss shape of the drain (link read first, "
                       "re-push on refusal), exactly-one publication per remote free, reachability of the drains on the ordinary allocation/collect paths with their "
                       "period constant, and the full-queue round trip. NOT decided: boundedness over time; schedule-quantified claims.")
    for c in (["REL"] if ctx.tier == "quick" else ["REL", "SEC", "DBG"]):
        prog = ctx.prog(c)
        n0 = len(ctx.instances)
        r1(ctx, prog); r2(ctx, prog); r3(ctx, prog); r4(ctx, prog); r5(ctx, prog); r6(ctx, prog)
        if c != "REL":
            for i in ctx.instances[n0:]:
                i["site"] += " [%s]" % c
                if not i["ok"]:
                    i["key"] += ":" + c
