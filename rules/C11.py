"""C11 — freed memory is given back: OS regions are unmapped (DESIGN §4 C11). Level: other (clause-level).

Decided: writer/reader agreement on the OS memid (R1), no computed size is dropped on the release chain (R2),
the size reaching munmap is the recorded/computed size (R3), the release chain is must-pass on every path (R4).
Not decided: RSS / mapping counts across repetitions (a run-time quantity).
"""
import rl
from facts import AnalysisBroken

LEVEL = "other"
OS_INFO = "mi_memid_os_info"


def creators(prog):
    out = []
    for f in prog.fns.values():
        if f.name == "_mi_memid_create_os":
            continue
        if any(True for _ in f.calls("_mi_memid_create_os")):
            out.append(f)
    return out


def r1(ctx, prog):
    R = ctx.rule("C11.R1", "every creator of an OS memid records mem.os.base/size that the reader _mi_os_free_ex uses, "
                           "or the reader derives them from its own (addr,size) parameters")
    rd = prog.fn("_mi_os_free_ex")
    size_p = rd.param_id(1)
    addr_p = rd.param_id(0)
    read_fields = sorted({rd.nodes[m]["fld"] for m in rd.all(kind="MemberExpr") if rd.nodes[m].get("rec") == OS_INFO})
    if not read_fields:
        # the reader no longer depends on recorded fields: nothing to agree on
        ctx.ok(R, rd.where(), "reader uses no recorded mem.os field")
        return
    # reader fallbacks
    fallback = {}
    # size: a local initialised from mem.os.size that is re-assigned, on its `== 0` edge, from the size parameter
    fb_size = False
    for ds, dd in rl.var_init_from(rd, lambda j: rd.nodes[j]["k"] == "MemberExpr" and rd.nodes[j]["fld"] == "size" and rd.nodes[j].get("rec") == OS_INFO):
        d = dd["d"]
        for a, rhs, op in rd.var_defs(d):
            if op == "=" and rhs is not None and rd.mentions_decl(rhs, size_p):
                w = rd.cfg.guarded(rd.cfg.pt(a), lambda e, pol: isinstance(e, int) and _is_zero_test(rd, e, pol, d))
                if w is None:
                    fb_size = True
    fallback["size"] = fb_size
    # base: every use of mem.os.base as the address to free is guarded by `mem.os.base != NULL`
    fb_base = True
    n_base_use = 0
    for a, lhs, rhs, op in rd.stores():
        if rhs is None:
            continue
        r = rd.strip(rhs)
        if rd.nodes[r]["k"] == "MemberExpr" and rd.nodes[r]["fld"] == "base" and rd.nodes[r].get("rec") == OS_INFO:
            n_base_use += 1
            w = rd.cfg.guarded(rd.cfg.pt(a), lambda e, pol: isinstance(e, int) and rl.fact_nonnull(
                rd, e, pol, lambda j: rd.nodes[j]["k"] == "MemberExpr" and rd.nodes[j]["fld"] == "base" and rd.nodes[j].get("rec") == OS_INFO))
            if w is not None:
                fb_base = False
    fallback["base"] = fb_base and n_base_use > 0
    cs = creators(prog)
    if len(cs) < 3:
        ctx.broke("C11.R1: fewer than 3 creators of OS memids found (%s)" % [c.name for c in cs])
    for c in cs:
        for fld in ("base", "size"):
            if fld not in read_fields:
                continue
            site = c.where()
            # the creator must store the field (plain assignment, non-constant value) on every path from the
            # creation to a return
            cfg = c.cfg
            stores = [a for a, l, rhs, op in c.field_stores(fld, OS_INFO) if op == "=" and rhs is not None and c.cv(rhs) is None]
            starts = [cfg.after(x) for x in c.calls("_mi_memid_create_os")]
            w = cfg.must_pass(starts, cfg.exit_points(), lambda e: e in stores)
            stored = w is None
            if stored:
                ctx.ok(R, site, "records mem.os.%s after _mi_memid_create_os on every path" % fld)
            elif fallback.get(fld):
                ctx.ok(R, site, "does not record mem.os.%s, but the reader falls back to its own parameters" % fld)
            else:
                ctx.fail(R, site, "creates an OS memid without recording mem.os.%s, and _mi_os_free_ex has no fallback for it: "
                                  "the region can never be unmapped with the right %s" % (fld, fld),
                         key="C11.R1:%s:%s" % (c.name, fld), witness=w)
    ctx.floor(R, 4)


def _is_zero_test(fn, e, pol, d):
    c = rl.cmp_parts(fn, e)
    if c is None:
        return False
    op, l, r = c
    for a, b in ((l, r), (r, l)):
        if fn.is_ref(a, d) and fn.cv(b) == 0:
            return (op == "==" and pol) or (op == "!=" and not pol)
    return False


def pure_functions(prog):
    """functions without side effects: no store through pointers/globals, no atomic RMW/store, only pure callees"""
    pure = {}
    PURE_BUILTINS = {"__builtin_expect", "__builtin_clzl", "__builtin_ctzl", "__builtin_clzll", "__builtin_ctzll", "__builtin_popcountl"}

    def locally_pure(f):
        if f.d["ret"] == "void":
            return False
        for a, lhs, rhs, op in f.stores():
            l = f.strip(lhs)
            n = f.nodes[l]
            if n["k"] == "DeclRefExpr" and n["dk"] in ("local", "parm"):
                continue
            # member of a local struct value
            x = l
            while f.nodes[x]["k"] == "MemberExpr" and not f.nodes[x]["arrow"]:
                x = f.strip(f.nodes[x]["c"][0])
            if f.nodes[x]["k"] == "DeclRefExpr" and f.nodes[x]["dk"] in ("local", "parm") and f.nodes[x]["k"] != "MemberExpr":
                if not any(f.nodes[y]["k"] == "MemberExpr" and f.nodes[y]["arrow"] for y in f.walk(l)):
                    continue
            return False
        for n in f.nodes:
            if n["k"] == "AtomicExpr" and n["aop"] != "load":
                return False
            if n["k"] in ("GCCAsmStmt",):
                return False
        return True

    cand = {f.name for f in prog.fns.values() if locally_pure(f)}
    changed = True
    while changed:
        changed = False
        for nm in list(cand):
            f = prog.fns[nm]
            for c in f.calls():
                cal = f.nodes[c].get("callee")
                if cal is None or (cal not in cand and cal not in PURE_BUILTINS):
                    cand.discard(nm)
                    changed = True
                    break
    return cand


def r2(ctx, prog):
    R = ctx.rule("C11.R2", "on the memory release chain no result of a side-effect-free size/address helper is computed and dropped")
    pure = pure_functions(prog)
    chain = prog.reachable(["_mi_os_free_ex", "_mi_os_free", "_mi_arena_free", "mi_segment_os_free", "mi_thread_data_free",
                            "_mi_thread_data_collect", "mi_os_prim_free", "mi_os_free_huge_os_pages"],
                           cut={"_mi_warning_message", "_mi_error_message", "_mi_verbose_message", "_mi_trace_message",
                                "_mi_stat_increase", "_mi_stat_decrease", "_mi_stat_counter_increase"})
    n = 0
    for nm in sorted(chain):
        f = prog.fns.get(nm)
        if f is None:
            continue
        for c in f.calls():
            cal = f.nodes[c].get("callee")
            if cal in pure and prog.fns[cal].d["ret"] != "_Bool":
                n += 1
                u = rl.result_use(f, c)
                ctx.check(R, u not in ("discarded",), f.where(c),
                          "result of pure helper %s is %s" % (cal, "used" if u != "discarded" else "computed and dropped (the value it was meant to provide is lost)"),
                          key="C11.R2:%s:%s" % (f.name, cal))
    ctx.note("C11.R2: %d pure helpers inferred by effect analysis; %d call sites on the release chain (%d functions)" % (len(pure), n, len(chain)))
    if "_mi_os_good_alloc_size" not in pure or "_mi_align_up" not in pure:
        ctx.broke("C11.R2: effect analysis no longer classifies _mi_os_good_alloc_size/_mi_align_up as pure")
    ctx.floor(R, 5)


def r3(ctx, prog):
    R = ctx.rule("C11.R3", "the (address,size) that reach munmap are the caller's: _mi_prim_free gets mi_os_prim_free's own "
                           "parameters, and _mi_os_free_ex passes a size derived from the memid or its size parameter")
    f = prog.fn("mi_os_prim_free")
    cs = list(f.calls("_mi_prim_free"))
    if not cs:
        ctx.fail(R, f.where(), "mi_os_prim_free no longer calls _mi_prim_free", key="C11.R3:mi_os_prim_free:nocall")
    for c in cs:
        a0, a1 = rl.arg(f, c, 0), rl.arg(f, c, 1)
        good = f.is_ref(a0, f.param_id(0)) and f.is_ref(a1, f.param_id(1))
        mod = [x for p in (0, 1) for x, rhs, op in f.var_defs(f.param_id(p))]
        ctx.check(R, good and not mod, f.where(c), "_mi_prim_free(%s, %s) must be the unmodified (addr, size) parameters" % (f.text(a0), f.text(a1)),
                  key="C11.R3:mi_os_prim_free:args")
    # unix primitive: munmap(addr,size) with the parameters
    if prog.has("_mi_prim_free"):
        pf = prog.fn("_mi_prim_free")
        ms = list(pf.calls("munmap"))
        ctx.check(R, len(ms) >= 1 and all(pf.is_ref(rl.arg(pf, m, 0), pf.param_id(0)) and pf.is_ref(rl.arg(pf, m, 1), pf.param_id(1)) for m in ms),
                  pf.where(), "_mi_prim_free calls munmap(addr, size) with its own parameters", key="C11.R3:_mi_prim_free:munmap")
    rd = prog.fn("_mi_os_free_ex")
    for c in rd.calls(("mi_os_prim_free", "mi_os_free_huge_os_pages")):
        a1 = rd.strip(rl.arg(rd, c, 1))
        n = rd.nodes[a1]
        ok = False
        why = rd.text(a1)
        if n["k"] == "DeclRefExpr" and n["dk"] == "local":
            defs = rd.var_defs(n["d"])
            srcs = []
            for a, rhs, op in defs:
                if rhs is None:
                    continue
                if rd.mentions_decl(rhs, rd.param_id(1)):
                    srcs.append("size parameter")
                if rd.mentions(rhs, lambda m: m["k"] == "MemberExpr" and m["fld"] == "size" and m.get("rec") == OS_INFO):
                    srcs.append("memid.mem.os.size")
            ok = bool(srcs)
            why = "%s <- %s" % (n["n"], sorted(set(srcs)))
        elif rd.mentions_decl(a1, rd.param_id(1)):
            ok = True
        ctx.check(R, ok, rd.where(c), "size argument of %s: %s" % (rd.nodes[c]["callee"], why), key="C11.R3:_mi_os_free_ex:%s" % rd.nodes[c]["callee"])
    ctx.floor(R, 3)


def r4(ctx, prog):
    R = ctx.rule("C11.R4", "release chain is must-pass: segment free -> arena free -> (OS kind) os free -> prim free -> munmap; "
                           "thread-data free ends in a successful cache CAS or _mi_os_free; forced collect reaches the collectors")
    # (a) mi_segment_free -> mi_segment_os_free unless dont_free
    f = prog.fn("mi_segment_free")
    cfg = f.cfg
    def dont_free_edge(lab, p, q):
        return not any(pol and rl.field_is(f, e, "dont_free") for e, pol in cfg.facts(lab))
    w = cfg.must_pass([cfg.entry], cfg.exit_points(), rl.through_call(prog, f, "mi_segment_os_free"), edge_ok=dont_free_edge)
    ctx.check(R, w is None, f.where(), "every path (except the segment->dont_free return) reaches mi_segment_os_free", key="C11.R4:mi_segment_free", witness=w)
    # (b) mi_segment_os_free -> _mi_arena_free on all paths, with the segment's recorded size
    f = prog.fn("mi_segment_os_free")
    ctx.check(R, rl.must_call(prog, f.name, "_mi_arena_free"), f.where(), "every path calls _mi_arena_free", key="C11.R4:mi_segment_os_free")
    for c in f.calls("_mi_arena_free"):
        a1 = rl.arg(f, c, 1)
        ok = f.mentions_call(a1, "mi_segment_size") or _var_from_call(f, a1, "mi_segment_size")
        ctx.check(R, ok, f.where(c), "size given to _mi_arena_free is mi_segment_size(segment) (= the size allocated): %s" % f.text(a1),
                  key="C11.R4:mi_segment_os_free:size")
    ms = prog.fn("mi_segment_size")
    ctx.check(R, any(ms.mentions_field(r, "segment_slices") for r in ms.all(kind="ReturnStmt")), ms.where(),
              "mi_segment_size derives from segment->segment_slices", key="C11.R4:mi_segment_size")
    # (c) _mi_arena_free: the OS-kind edge passes _mi_os_free(_ex); early returns only for p==NULL / size==0
    f = prog.fn("_mi_arena_free")
    cfg = f.cfg
    starts = [q for p, q, e, pol in rl.edges_with_fact(f, lambda e, pol: pol and rl.is_call(f, f.strip(e), "mi_memkind_is_os"))]
    if not starts:
        ctx.fail(R, f.where(), "no branch on mi_memkind_is_os(memid.memkind) found", key="C11.R4:_mi_arena_free:nobranch")
    else:
        w = cfg.must_pass(starts, cfg.exit_points(), rl.through_call(prog, f, ("_mi_os_free", "_mi_os_free_ex")))
        ctx.check(R, w is None, f.where(), "on the OS-kind edge every path calls _mi_os_free", key="C11.R4:_mi_arena_free:os", witness=w)
        # the branch itself must be reached unless p==NULL or size==0
        p0, p1 = f.param_id(0), f.param_id(1)
        def early_ok(lab, p, q):
            return not any(rl.fact_null(f, e, pol, rl.is_var(f, p0)) or rl.fact_null(f, e, pol, rl.is_var(f, p1)) for e, pol in cfg.facts(lab))
        branch_pts = {p for p, q, e, pol in rl.edges_with_fact(f, lambda e, pol: rl.is_call(f, f.strip(e), "mi_memkind_is_os"))}
        w = cfg.must_pass([cfg.entry], cfg.exit_points(), lambda e: False,
                          edge_ok=lambda lab, p, q: early_ok(lab, p, q) and p not in branch_pts)
        ctx.check(R, w is None, f.where(), "the memkind dispatch is skipped only for p==NULL or size==0", key="C11.R4:_mi_arena_free:early", witness=w)
    # (d) _mi_os_free -> _mi_os_free_ex ; _mi_os_free_ex OS edge -> prim free
    f = prog.fn("_mi_os_free")
    ctx.check(R, rl.must_call(prog, f.name, "_mi_os_free_ex"), f.where(), "every path calls _mi_os_free_ex", key="C11.R4:_mi_os_free")
    f = prog.fn("_mi_os_free_ex")
    cfg = f.cfg
    starts = [q for p, q, e, pol in rl.edges_with_fact(f, lambda e, pol: pol and rl.is_call(f, f.strip(e), "mi_memkind_is_os"))]
    if not starts:
        ctx.fail(R, f.where(), "no branch on mi_memkind_is_os", key="C11.R4:_mi_os_free_ex:nobranch")
    else:
        w = cfg.must_pass(starts, cfg.exit_points(), rl.through_call(prog, f, ("mi_os_prim_free", "mi_os_free_huge_os_pages")))
        ctx.check(R, w is None, f.where(), "on the OS-kind edge every path calls mi_os_prim_free / mi_os_free_huge_os_pages",
                  key="C11.R4:_mi_os_free_ex:os", witness=w)
    f = prog.fn("mi_os_free_huge_os_pages")
    ctx.check(R, any(True for _ in f.calls("mi_os_prim_free")), f.where(), "huge OS pages are released through mi_os_prim_free", key="C11.R4:huge")
    # (e) mi_os_prim_free: _mi_prim_free on every path except addr==NULL || size==0
    f = prog.fn("mi_os_prim_free")
    cfg = f.cfg
    p0, p1 = f.param_id(0), f.param_id(1)
    def ok_edge(lab, p, q):
        return not any(rl.fact_null(f, e, pol, rl.is_var(f, p0)) or rl.fact_null(f, e, pol, rl.is_var(f, p1)) for e, pol in cfg.facts(lab))
    w = cfg.must_pass([cfg.entry], cfg.exit_points(), rl.call_to("_mi_prim_free")(f), edge_ok=ok_edge)
    ctx.check(R, w is None, f.where(), "every path with addr!=NULL and size!=0 calls _mi_prim_free", key="C11.R4:mi_os_prim_free", witness=w)
    # (f) thread data
    f = prog.fn("mi_thread_data_free")
    cfg = f.cfg
    def cas_success(lab, p, q):
        for e, pol in cfg.facts(lab):
            if pol and any(f.nodes[x]["k"] == "AtomicExpr" and f.nodes[x]["aop"].startswith("cas") for x in f.walk(e)):
                return False
        return True
    w = cfg.must_pass([cfg.entry], cfg.exit_points(), rl.call_to(("_mi_os_free", "_mi_os_free_ex"))(f), edge_ok=cas_success)
    ctx.check(R, w is None, f.where(), "every path ends in a successful cache CAS or _mi_os_free", key="C11.R4:mi_thread_data_free", witness=w)
    f = prog.fn("_mi_thread_data_collect")
    ctx.check(R, any(True for _ in f.calls(("_mi_os_free", "_mi_os_free_ex"))), f.where(), "cached thread data is released with _mi_os_free", key="C11.R4:td_collect")
    # (g) forced collect reaches the collectors
    f = prog.fn("mi_heap_collect_ex")
    for tgt in ("_mi_thread_data_collect", "_mi_arenas_collect", "_mi_abandoned_reclaim_all"):
        ctx.check(R, rl.may_call(prog, "mi_heap_collect_ex", tgt), f.where(), "mi_heap_collect_ex reaches %s" % tgt, key="C11.R4:collect:%s" % tgt)
    ac = prog.fn("_mi_arenas_collect")
    ctx.check(R, rl.may_call(prog, "_mi_arenas_collect", "mi_arenas_try_purge"), ac.where(), "_mi_arenas_collect reaches mi_arenas_try_purge", key="C11.R4:arenas_collect")
    # (h) mi_segment_os_alloc size == size stored in the segment
    f = prog.fn("mi_segment_alloc")
    ctx.check(R, any(True for _ in f.field_stores("segment_slices")), f.where(), "mi_segment_alloc records segment->segment_slices", key="C11.R4:segment_slices")
    ctx.floor(R, 14)


def _var_from_call(f, e, callee):
    j = f.strip(e)
    n = f.nodes[j]
    if n["k"] == "DeclRefExpr" and n["dk"] == "local":
        return any(rhs is not None and f.mentions_call(rhs, callee) for a, rhs, op in f.var_defs(n["d"]))
    return False


def r5(ctx, prog):
    R = ctx.rule("C11.R5", "forced collect really purges: the arena purge drivers skip on an expiry value only when force is false (the global/arena expiry is a hint that "
                           "is reset even when blocks remain scheduled)")
    import shared
    shared.forced_purge_not_skipped(ctx, R, prog)
    ctx.floor(R, 3)


def r6(ctx, prog):
    R = ctx.rule("C11.R6", "memid provenance: the memid recorded in an object (what its release will be told) is, on every path, the one written by the allocation call that "
                           "produced the object — a recorded `none` memid makes the later free a no-op and the region is never returned")
    n = 0
    for f in prog.fns.values():
        for fld in ("memid", "meta_memid"):
            for a, l, rhs, op in f.field_stores(fld):
                if op != "=" or rhs is None:
                    continue
                m = rl.var_of(f, rhs)
                if m is None or m in f.pids:
                    continue      # a parameter: provenance is the caller's (checked at its own store)
                n += 1
                cfg = f.cfg

                def writes_m(e):
                    nn = f.nodes[e]
                    if nn["k"] != "CallExpr":
                        return False
                    for x in nn["args"]:
                        j = f.strip(x)
                        if f.nodes[j]["k"] == "UnaryOperator" and f.nodes[j]["op"] == "&" and rl.var_of(f, f.nodes[j]["c"][0]) == m:
                            return True
                    return False
                w = cfg.must_pass([cfg.entry], [cfg.pt(a)], writes_m)
                # and no plain re-definition of m after the last such call
                plain = [x for x, r_, o in f.var_defs(m) if o in ("=",)]
                late = [x for x in plain if any(writes_m(e) and cfg.reaches(cfg.after(e), cfg.pt(x)) for e in f.all(kind="CallExpr")) and cfg.reaches(cfg.after(x), cfg.pt(a))]
                ctx.check(R, w is None and not late, f.where(a), "%s = %s: every path to the store passes the allocation call that fills `%s`" % (f.text(l), f.text(rhs), f.text(rhs)),
                          key="C11.R6:%s:%s" % (f.name, fld), witness=w)
    if n < 4:
        ctx.broke("C11.R6: %d recorded memids found (5 confirmed: subproc, thread data, arena meta, segment map part, segment)" % n)
    ctx.floor(R, 4)


def r7(ctx, prog):
    R = ctx.rule("C11.R7", "the whole recorded region goes back: when the memid's base differs from the freed address (aligned-at-offset huge blocks keep an unused, merely "
                           "decommitted front part), _mi_os_free_ex releases from the recorded base on every path, and never shortens the size it releases")
    f = prog.fn("_mi_os_free_ex")
    cfg = f.cfg
    frees = list(f.calls(("mi_os_prim_free", "mi_os_free_huge_os_pages")))
    bvars = {rl.var_of(f, rl.arg(f, c, 0)) for c in frees} - {None}
    svars = {rl.var_of(f, rl.arg(f, c, 1)) for c in frees} - {None}
    if not frees or len(bvars) != 1:
        ctx.broke("C11.R7: release calls / base variable of _mi_os_free_ex not found")
        return
    bv = next(iter(bvars))
    is_base_fld = lambda j: f.nodes[j]["k"] == "MemberExpr" and f.nodes[j]["fld"] == "base"
    # (the freed address: the release variable itself, or the parameter it starts out as a copy of)
    srcs = {rl.var_of(f, dd["init"]) for _, dd in rl.local_decl(f, lambda dd: f.alias_root(dd["d"]) == bv) if dd.get("init") is not None} - {None}
    is_addr = lambda j: any(rl.is_local(f, d)(j) for d in {bv} | srcs)
    differs = lambda e, pol: isinstance(e, int) and rl.rel(f, e, pol, is_base_fld, is_addr) == "!="
    hit = [q for p_, q, e, pol in rl.edges_with_fact(f, differs)]
    setb = lambda e: f.nodes[e]["k"] == "BinaryOperator" and f.nodes[e]["op"] == "=" and rl.var_of(f, f.nodes[e]["c"][0]) == bv and f.mentions_field(f.nodes[e]["c"][1], "base")
    ok = bool(hit)
    w = None
    for q in hit:
        w = w or cfg.must_pass([q], [cfg.pt(c) for c in frees], setb)
    ctx.check(R, ok and w is None, f.where(), "recorded base != addr: the release starts at memid.mem.os.base on every path (no platform or size condition in between)", key="C11.R7:base", witness=w)
    shrink = [a for d_ in svars for a, kind, opnd in f.var_updates(d_) if kind == "sub"]
    ctx.check(R, not shrink, f.where(shrink[0]) if shrink else f.where(), "the released size is never reduced", key="C11.R7:size")
    ctx.floor(R, 2)


def run(ctx):
    ctx.explanation = ("Static decision of the code-shaped necessary conditions of C11 on every CFG path of the release chain "
                       "(segment free -> arena free -> OS free -> munmap): writer/reader agreement on memid.mem.os.{base,size}, no dropped "
                       "pure size computation, argument provenance of the size reaching munmap, must-pass-through of each link. "
                       "NOT decided: RSS/mapping counts over repetitions (run-time quantities).")
    configs = ["REL"] if ctx.tier == "quick" else ["REL", "SEC", "DBG"]
    for c in configs:
        prog = ctx.prog(c)
        if c == "REL":
            r1(ctx, prog); r2(ctx, prog); r3(ctx, prog); r4(ctx, prog); r5(ctx, prog); r6(ctx, prog); r7(ctx, prog)
        else:
            # cross-configuration: the same rules must hold in the hardened and debug programs
            n0 = len(ctx.instances)
            r1(ctx, prog); r3(ctx, prog); r4(ctx, prog); r5(ctx, prog); r6(ctx, prog); r7(ctx, prog)
            for i in ctx.instances[n0:]:
                i["site"] += " [%s]" % c
                if not i["ok"]:
                    i["key"] += ":" + c
