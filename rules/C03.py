"""C03 — size/alignment contract, interior pointers (DESIGN §4 C03). Level: other (+ proof obligations by abstract interpretation).

Decided: the has_aligned flag is set whenever an interior pointer is handed out (R1), the adjustment arithmetic (R2: proof of the over-allocation
bound as a linear inequality, refutation search with concrete witnesses, structural form of poffset/adjust), every consumer un-aligns (R3), the flag
byte keeps its integrity (R4), natural alignment of page starts for every produced bin size and every page position (R5: exhaustive residue
analysis), huge-alignment plumbing (R6), usable >= requested (R7).
Not decided: the alignment of a particular returned address for a given heap state (all three paths are covered by R2/R5).
"""
import math
import rl, shared
from absint import AV, Interp, Residue, Split, Unsupported, AssertionMayFail, prove
from facts import AnalysisBroken
import C16

LEVEL = "other"


def r1(ctx, prog):
    R = ctx.rule("C03.R1", "over-allocation: every path that returns the adjusted pointer took the `aligned_p == p` edge or set has_aligned on the page")
    f = prog.fn("mi_heap_malloc_zero_aligned_at_overalloc")
    cfg = f.cfg
    ap = [dd for _, dd in rl.local_decl(f, lambda dd: "init" in dd and any(f.nodes[x]["k"] == "BinaryOperator" and f.nodes[x]["op"] == "+" for x in f.walk(dd["init"])) and dd["t"].startswith("void *"))]
    if not ap:
        raise AnalysisBroken("C03.R1: aligned_p local not found")
    a_d = ap[0]["d"]
    p_ds = {rl.var_of(f, x) for x in f.walk(ap[0]["init"]) if rl.var_of(f, x) is not None}
    rets = [r for r in f.all(kind="ReturnStmt") if "val" in f.nodes[r] and rl.var_of(f, f.nodes[r]["val"]) == a_d]
    ctx.check(R, len(rets) >= 1, f.where(), "the adjusted pointer is what is returned", key="C03.R1:ret")
    def same(lab, p, q):
        for e, pol in cfg.facts(lab):
            c = rl.norm_cmp(f, e, pol)
            if c is not None and c[0] == "==" and a_d in (rl.var_of(f, c[1]), rl.var_of(f, c[2])) and (rl.var_of(f, c[1]) in p_ds or rl.var_of(f, c[2]) in p_ds):
                return False
        return True
    sets = lambda e: rl.is_call(f, e, "mi_page_set_has_aligned") and f.cv(f.nodes[e]["args"][1]) == 1
    for r in rets:
        w = cfg.must_pass([cfg.pt(ap[0]["init"]) or cfg.entry], [cfg.pt(r)], sets, edge_ok=same)
        ctx.check(R, w is None, f.where(r), "return of an interior pointer only after mi_page_set_has_aligned(page, true)", key="C03.R1:flag", witness=w)
    # the page whose flag is set is the page of the block
    for c in f.calls("mi_page_set_has_aligned"):
        pg = rl.values_of(f, rl.arg(f, c, 0))
        ok = any(rl.is_call(f, v, "_mi_ptr_page") and rl.var_of(f, f.nodes[v]["args"][0]) in p_ds for v in pg)
        ctx.check(R, ok, f.where(c), "the flag is set on _mi_ptr_page(p) of the over-allocated block", key="C03.R1:page")
    ctx.floor(R, 3)


def linear(f, e, env_names, depth=4):
    """linear form of an unsigned expression: dict term -> coefficient, terms: parameter/variable ids, ('max', a_id, const), 1 for constants; None if not linear"""
    j = f.strip(e)
    n = f.nodes[j]
    c = f.cv(e)
    if c is not None:
        return {1: c}
    if n["k"] == "DeclRefExpr":
        if n["dk"] == "parm":
            return {("v", n["d"]): 1}
        if n["dk"] == "local" and depth > 0:
            defs = [rhs for a, rhs, op in f.var_defs(n["d"]) if rhs is not None]
            if len(defs) == 1:
                return linear(f, defs[0], env_names, depth - 1)
        return None
    if n["k"] == "BinaryOperator" and n["op"] in ("+", "-"):
        a, b = linear(f, n["c"][0], env_names, depth), linear(f, n["c"][1], env_names, depth)
        if a is None or b is None:
            return None
        out = dict(a)
        for t, k in b.items():
            out[t] = out.get(t, 0) + (k if n["op"] == "+" else -k)
        return out
    if n["k"] == "ConditionalOperator":
        cc = rl.cmp_parts(f, n["cond"])
        if cc:
            op, x, y = cc
            dx, cy = rl.var_of(f, x), f.cv(y)
            t, el = n["then"], n["else"]
            # (x < K ? K : x)  = max(x, K)
            if dx is not None and cy is not None and op in ("<", "<=") and f.cv(t) == cy and rl.var_of(f, el) == dx:
                return {("max", dx, cy): 1}
            if dx is not None and cy is not None and op in (">", ">=") and rl.var_of(f, t) == dx and f.cv(el) == cy:
                return {("max", dx, cy): 1}
        return None
    return None


def r2(ctx, prog):
    R = ctx.rule("C03.R2", "adjustment arithmetic: the over-allocation is at least size + alignment − 1 bytes (proved as a linear inequality; refuted by witness search), "
                           "poffset = (p + offset) mod alignment, adjust = (poffset == 0 ? 0 : alignment − poffset), aligned_p = p + adjust")
    f = prog.fn("mi_heap_malloc_zero_aligned_at_overalloc")
    sz, al, of = f.param_id(1), f.param_id(2), f.param_id(3)
    calls = list(f.calls("mi_heap_malloc_zero_no_guarded"))
    if not calls:
        raise AnalysisBroken("C03.R2: over-allocating call not found")
    ovd = rl.var_of(f, rl.arg(f, calls[0], 1))
    defs = [rhs for a, rhs, op in rl.reaching_defs(f, ovd, calls[0]) if rhs is not None] if ovd is not None else [rl.arg(f, calls[0], 1)]
    it = Interp(prog)
    it.lazy_locals = True
    for rhs in defs:
        L = linear(f, rhs, None)
        proved = False
        if L is not None:
            # oversize - (size + alignment - 1) >= 0 ?
            D = dict(L)
            D[("v", sz)] = D.get(("v", sz), 0) - 1
            D[("v", al)] = D.get(("v", al), 0) - 1
            D[1] = D.get(1, 0) + 1
            # max(size, K) - size >= 0 : replace one max term against one -size
            for t in list(D):
                if isinstance(t, tuple) and t[0] == "max" and t[1] == sz and D[t] >= 1 and D.get(("v", sz), 0) <= -1:
                    D[t] -= 1
                    D[("v", sz)] += 1
            proved = all(k >= 0 for t, k in D.items())
        # refutation search: concrete witnesses (size, alignment) evaluated on the extracted expression
        witness = None
        for a in (1, 2, 4, 8, 16, 32, 64, 256, 4096, 65536):
            for s in (0, 1, 7, 8, 15, 16, 17, 24, 48, 100, 112, 1000, 4096, 65537):
                try:
                    v = it.eval(f, rhs, {sz: AV(s), al: AV(a), of: AV(0)}, 0)
                except (Split, Unsupported, AssertionMayFail):
                    continue
                if v.const() is not None and v.const() < s + a - 1:
                    witness = (s, a, v.const())
                    break
            if witness:
                break
        if witness:
            ctx.fail(R, f.where(rhs), "over-allocation %s is too small: size=%d alignment=%d gives %d < size+alignment-1 = %d — an offset-aligned block can run past its end"
                     % (f.text(rhs), witness[0], witness[1], witness[2], witness[0] + witness[1] - 1), key="C03.R2:oversize", witness=list(witness))
        elif proved:
            ctx.ok(R, f.where(rhs), "oversize = %s >= size + alignment − 1 (linear form %s)" % (f.text(rhs), {str(k): v for k, v in L.items()}))
        else:
            ctx.broke("C03.R2: cannot prove or refute oversize >= size+alignment-1 for %s" % f.text(rhs))
    # structural form of the adjustment
    po = [dd for _, dd in rl.local_decl(f, lambda dd: "init" in dd and f.nodes[f.strip(dd["init"])]["k"] == "BinaryOperator" and f.nodes[f.strip(dd["init"])]["op"] == "&" and f.mentions_decl(dd["init"], of))]
    ok = len(po) == 1
    if ok:
        j = f.strip(po[0]["init"])
        m = rl.values_of(f, f.nodes[j]["c"][1])
        ok = any(rl.canon(f, v).replace(" ", "") in ("($2-1)",) for v in m) and f.nodes[f.strip(f.nodes[j]["c"][0])]["k"] == "BinaryOperator" and f.nodes[f.strip(f.nodes[j]["c"][0])]["op"] == "+"
    ctx.check(R, ok, f.where(), "poffset = ((uintptr_t)p + offset) & (alignment − 1)", key="C03.R2:poffset")
    # the adjustment: the one `?:` over poffset (initialiser of a local, or the value returned by a private helper)
    ad = [j_ for j_ in f.all(kind="ConditionalOperator") if po and f.mentions_decl(f.nodes[j_]["cond"], po[0]["d"]) and f.nodes[j_].get("macro") not in ("mi_assert_internal", "mi_assert")]
    ok = len(ad) == 1
    if ok:
        j = ad[0]
        n = f.nodes[j]
        c = rl.cmp_parts(f, n["cond"])
        ok = c is not None and c[0] == "==" and rl.var_of(f, c[1]) == po[0]["d"] and f.cv(c[2]) == 0 and f.cv(n["then"]) == 0
        e = f.strip(n["else"])
        ok = ok and f.nodes[e]["k"] == "BinaryOperator" and f.nodes[e]["op"] == "-" and rl.var_of(f, f.nodes[e]["c"][0]) == al and rl.var_of(f, f.nodes[e]["c"][1]) == po[0]["d"]
    ctx.check(R, ok, f.where(), "adjust = (poffset == 0 ? 0 : alignment − poffset)  [(p + adjust + offset) mod alignment = 0 by (x + (A − x mod A)) mod A = 0]", key="C03.R2:adjust")
    g = prog.fn("_mi_os_alloc_aligned_at_offset")
    # what is requested from the OS and where the block is placed, with temporaries expanded (it does not matter whether
    # `extra` / `oversize` are named locals or written out at the use)
    EXTRA = "(_mi_align_up($2,$1)-$2)"
    exp = lambda x: rl.canon(g, x, expand=True).replace(" ", "")
    reqs = [exp(rl.arg(g, c, 0)) for c in g.calls("_mi_os_alloc_aligned")]
    ctx.check(R, any(EXTRA in r for r in reqs), g.where(), "OS level: extra = align_up(offset, alignment) − offset (so start + extra + offset is aligned)", key="C03.R2:os_extra")
    ctx.check(R, any(r in ("($0+%s)" % EXTRA, "(%s+$0)" % EXTRA) for r in reqs), g.where(), "OS level: the over-allocation is size + extra: %s" % reqs, key="C03.R2:os_oversize")
    ctx.floor(R, 5)


def r3(ctx, prog):
    R = ctx.rule("C03.R3", "every consumer of a user pointer un-aligns it: free's fast path requires flags.full_aligned == 0, the generic local path un-aligns iff has_aligned, "
                           "the remote path always, usable_size subtracts the adjustment iff has_aligned, realloc/expand measure the block only through (_)mi_usable_size")
    f = prog.fn("mi_free")
    cfg = f.cfg
    for c in f.calls("mi_free_block_local"):
        w = cfg.guarded(cfg.pt(c), rl.fact_field_eq(f, "full_aligned", 0))
        ctx.check(R, w is None, f.where(c), "p is used as a block start only when the page has no aligned blocks (flags.full_aligned == 0)", key="C03.R3:fast", witness=w)
    g = prog.fn("mi_free_generic_local")
    # what reaches mi_free_block_local as the block: on every path either the un-aligned pointer, or the raw user pointer
    # under the knowledge that the page has no aligned blocks (the `?:` on has_aligned, or a dominating test)
    pu = g.param_id(2)

    def block_ok(h_, e, site, depth=4):
        j = h_.strip(e)
        n = h_.nodes[j]
        if rl.is_call(h_, j, "_mi_page_ptr_unalign"):
            return True
        if n["k"] == "ConditionalOperator":
            t = rl._accessor_truth(h_, "mi_page_has_aligned", n["cond"], True)
            if t is not None:
                yes, no = (n["then"], n["else"]) if t else (n["else"], n["then"])
                return block_ok(h_, yes, site, depth) and (block_ok(h_, no, site, depth) or rl.var_of(h_, no) in h_.pids)
            return block_ok(h_, n["then"], site, depth) and block_ok(h_, n["else"], site, depth)
        if n["k"] == "DeclRefExpr":
            if n["d"] in h_.pids:
                # raw user pointer: only where has_aligned is known to be false
                return h_.cfg.guarded(h_.cfg.pt(site), rl.fact_call_false(h_, "mi_page_has_aligned")) is None
            if depth > 0:
                defs = [rhs for a_, rhs, op in rl.reaching_defs(h_, n["d"], site) if rhs is not None]
                return bool(defs) and all(block_ok(h_, r_, site, depth - 1) for r_ in defs)
        return False
    sites = list(g.calls("mi_free_block_local"))
    ok = bool(sites) and all(block_ok(g, rl.arg(g, c, 1), c) for c in sites)
    ctx.check(R, ok, g.where(), "block = has_aligned ? _mi_page_ptr_unalign(page,p) : p on every path into mi_free_block_local (a full page may also hold aligned blocks)", key="C03.R3:local")
    mts = [(prog.fn(cn), c) for cn in rl.callers_of(prog, "mi_free_block_mt") for c in prog.fn(cn).calls("mi_free_block_mt")]
    if not mts:
        raise AnalysisBroken("C03.R3: no call of mi_free_block_mt")
    for h, c in mts:
        bv = rl.values_of(h, rl.arg(h, c, 2))
        un = [v for v in bv if rl.is_call(h, v, "_mi_page_ptr_unalign")]
        ok = bool(un) and not any(h.nodes[v]["k"] == "ConditionalOperator" for v in bv) and all(rl.var_of(h, rl.arg(h, v, 1)) in h.pids for v in un)
        ctx.check(R, ok, h.where(c), "remote free always un-aligns: the block handed to mi_free_block_mt is _mi_page_ptr_unalign(page, p)", key="C03.R3:mt")
        ctx.check(R, bool(un), h.where(c), "the un-aligned block is what is freed", key="C03.R3:mt:arg")
    u = prog.fn("_mi_usable_size")
    cfg = u.cfg
    for c in u.calls("mi_page_usable_aligned_size_of"):
        w = cfg.guarded(cfg.pt(c), rl.fact_call_true(u, "mi_page_has_aligned"))
        ctx.check(R, w is None, u.where(c), "aligned size path iff has_aligned", key="C03.R3:usable:aligned", witness=w)
    for c in u.calls("mi_page_usable_size_of"):
        w = cfg.guarded(cfg.pt(c), rl.fact_call_false(u, "mi_page_has_aligned"))
        ctx.check(R, w is None, u.where(c), "plain block size only when the page has no aligned blocks", key="C03.R3:usable:plain", witness=w)
    a = prog.fn("mi_page_usable_aligned_size_of")
    ok = any(True for _ in a.calls("_mi_page_ptr_unalign")) and any(a.nodes[x]["k"] == "BinaryOperator" and a.nodes[x]["op"] == "-" for r in a.all(kind="ReturnStmt") for x in a.walk(r) ) or \
        any(rl.var_of(a, a.nodes[r].get("val", -1)) is not None for r in a.all(kind="ReturnStmt"))
    ctx.check(R, ok, a.where(), "usable size of an interior pointer = block usable size − (p − block)", key="C03.R3:usable:sub")
    # every internal user of a block's size for a *user pointer* goes through (_)mi_usable_size
    raw = []
    for fn in prog.fns.values():
        if fn.name in ("_mi_usable_size", "mi_page_usable_aligned_size_of", "mi_page_usable_size_of", "_mi_padding_shrink", "mi_free_block_local", "mi_free_block_mt",
                       "mi_verify_padding", "mi_page_decode_padding", "mi_check_padding", "mi_stat_free", "_mi_free_delayed_block", "mi_block_check_unguard", "mi_block_unguard"):
            continue
        for c in fn.calls("mi_page_usable_size_of"):
            raw.append(fn.where(c))
    ctx.check(R, not raw, "all units", "mi_page_usable_size_of (block-start based) is not applied to user pointers outside the free/usable-size internals", key="C03.R3:raw", witness=raw)
    e = prog.fn("mi_expand")
    ok = any(True for _ in e.calls(("_mi_usable_size", "mi_usable_size"))) or all(e.cv(e.nodes[r].get("val", -1)) == 0 for r in e.all(kind="ReturnStmt"))
    ctx.check(R, ok, e.where(), "mi_expand measures with _mi_usable_size", key="C03.R3:expand")
    ctx.floor(R, 9)


def r4(ctx, prog):
    R = ctx.rule("C03.R4", "flag integrity: has_aligned/in_full are changed only through their setters, never as a whole byte; has_aligned is cleared only on all-free pages")
    shared.flag_integrity(ctx, R, prog)
    ctx.floor(R, 4)


def r5(ctx, prog):
    R = ctx.rule("C03.R5", "natural alignment: every size mi_bin produces is a multiple of 8 (16 from 16 bytes on); mi_malloc_is_naturally_aligned promises only what the page layout "
                           "gives; ∀ produced bin size B <= MI_MAX_ALIGN_GUARANTEE, ∀ page positions: the page start is 16-aligned and B-aligned (exhaustive residue analysis)")
    T = C16.bin_table(prog)
    med = prog.const("MI_MEDIUM_OBJ_SIZE_MAX")
    it = Interp(prog)
    U = C16.used_bins(prog, it, T, med)
    ok = all(T[k] % 8 == 0 for k in U) and all(T[k] % 16 == 0 for k in U if T[k] >= 16)
    ctx.check(R, ok, "src/init.c _mi_heap_empty.pages[]", "%d produced bin sizes: all multiples of 8, of 16 from 16 bytes on" % len(U), key="C03.R5:table")
    f = prog.fn("mi_malloc_is_naturally_aligned")
    cfg = f.cfg
    sz, al = f.param_id(0), f.param_id(1)
    maxal, guar = prog.const("MI_MAX_ALIGN_SIZE"), prog.const("MI_MAX_ALIGN_GUARANTEE")
    # returns: false if alignment > size; true if alignment <= MAX_ALIGN_SIZE; else bsize <= GUARANTEE && (bsize & (alignment-1)) == 0
    rets = [r for r in f.all(kind="ReturnStmt")]
    gen = [r for r in rets if f.cv(f.nodes[r].get("val", -1)) is None]
    ok = len(gen) == 1
    if ok:
        d = rl.dnf(f, f.nodes[gen[0]]["val"])
        ok = len(d) == 1 and len(next(iter(d))) == 2
        txt = rl.canon(f, f.nodes[gen[0]]["val"]).replace(" ", "")
        ok = ok and ("<=%d" % guar) in txt and ("&($1-1))==0" in txt or "(($1-1)&" in txt)
        bs = [dd for _, dd in rl.var_init_from(f, lambda j: rl.is_call(f, j, "mi_good_size"))]
        ok = ok and len(bs) == 1 and rl.var_of(f, f.nodes[f.strip(bs[0]["init"])]["args"][0]) == sz
    ctx.check(R, ok, f.where(), "general case: bsize = mi_good_size(size) <= MI_MAX_ALIGN_GUARANTEE && (bsize & (alignment−1)) == 0", key="C03.R5:predicate")
    for r in rets:
        if f.cv(f.nodes[r].get("val", -1)) == 1:
            def small(e, pol):
                if not isinstance(e, int):
                    return False
                return rl.establishes(f, e, pol, "<=", rl.is_local(f, al), rl.is_const(f, lambda v: v <= maxal))
            w = cfg.guarded(cfg.pt(r), small)
            ctx.check(R, w is None, f.where(r), "`return true` without looking at the size only for alignment <= MI_MAX_ALIGN_SIZE", key="C03.R5:small", witness=w)
            def fits(e, pol):
                if not isinstance(e, int):
                    return False
                return rl.establishes(f, e, pol, "<=", rl.is_local(f, al), rl.is_local(f, sz))
            w = cfg.guarded(cfg.pt(r), fits)
            ctx.check(R, w is None, f.where(r), "and only when alignment <= size (a smaller request may land in a smaller, less aligned size class)", key="C03.R5:fits", witness=w)
    # page start: exhaustive residue analysis
    g = prog.fn("_mi_segment_page_start_from_slice")
    slice_sz = prog.const("MI_SEGMENT_SLICE_SIZE")
    small_obj = prog.const("MI_SMALL_OBJ_SIZE_MAX")
    psz = {True: prog.const("MI_SMALL_PAGE_SIZE"), False: prog.const("MI_MEDIUM_PAGE_SIZE")}
    locs = {}
    for n in g.nodes:
        if n["k"] == "DeclStmt" and not n.get("inl_param"):     # (not the parameter temporaries of inlined helpers)
            for dd in n["decls"]:
                locs[dd["n"]] = dd
    # the locals by role: the function returns <page start pointer> + <start offset>; the page size is the local computed
    # from slice_count
    rets_g = [r for r in g.all(kind="ReturnStmt") if "val" in g.nodes[r]]
    rj = g.strip(g.nodes[rets_g[0]]["val"]) if len(rets_g) == 1 else None
    roles = {}
    if rj is not None and g.nodes[rj]["k"] == "BinaryOperator" and g.nodes[rj]["op"] == "+":
        for side in g.nodes[rj]["c"]:
            d_ = rl.var_of(g, side)
            dd_ = next((dd for dd in locs.values() if dd["d"] == d_), None)
            if dd_ is not None:
                roles["pstart" if "*" in dd_["t"] else "start_offset"] = dd_
    ps = [dd for dd in locs.values() if "init" in dd and (g.mentions_field(dd["init"], "slice_count") or "->slice_count" in rl.canon(g, dd["init"]))]
    if len(ps) == 1:
        roles["psize"] = ps[0]
    if not all(k in roles for k in ("psize", "pstart", "start_offset")):
        raise AnalysisBroken("C03.R5: locals of _mi_segment_page_start_from_slice not found (page size / page start / start offset)")
    locs = roles
    body = g.kids(g.d["body"])
    so_decl = next(i for i in body if g.nodes[i]["k"] == "DeclStmt" and any(dd["d"] == locs["start_offset"]["d"] for dd in g.nodes[i]["decls"]))
    rest = body[body.index(so_decl):]
    cells = 0
    bad = None
    for k in U:
        B = T[k]
        if B > guar:
            continue
        gcd = math.gcd(B, slice_sz)
        P = psz[B <= small_obj]
        for r in range(0, B, gcd):
            cells += 1
            env = {g.param_id(2): AV(B), locs["psize"]["d"]: AV(P), locs["pstart"]["d"]: Residue(B * 16 // math.gcd(B, 16), r if B % 16 == 0 else r)}
            # pstart ≡ r (mod B) and ≡ 0 (mod 16): combine as a residue modulo lcm(B,16)
            l = B * 16 // math.gcd(B, 16)
            rr = next(x for x in range(r, l + B, B) if x % 16 == 0) if l != B else r
            env[locs["pstart"]["d"]] = Residue(l, rr % l)
            it2 = Interp(prog)
            try:
                for st in rest:
                    if g.nodes[st]["k"] == "ReturnStmt" or (g.nodes[st]["k"] == "IfStmt" and g.mentions_decl(st, g.param_id(3))):
                        continue
                    it2.exec_stmt(g, st, env, 0)
            except (Split, Unsupported) as e:
                raise AnalysisBroken("C03.R5: page-start analysis undecided for B=%d r=%d: %s" % (B, r, e))
            except AssertionMayFail as e:
                bad = (B, r, "assertion %s" % e.where)
                break
            so = env[locs["start_offset"]["d"]].const()
            if so is None or (rr + so) % B != 0 or (rr + so) % 16 != 0 or so >= P:
                bad = (B, r, "start_offset=%s" % so)
                break
        if bad:
            break
    ctx.cells += cells
    ctx.check(R, bad is None, g.where(), "page start ≡ 0 (mod B) and (mod 16) for all %d (B, pstart mod B) cases of the %d produced sizes <= %d" % (cells, len([k for k in U if T[k] <= guar]), guar)
              if bad is None else "page start misaligned for block size %d when pstart ≡ %d (mod B): %s" % bad, key="C03.R5:page_start", witness=list(bad) if bad else None)
    # page kinds really give those page sizes: small pages are one slice, medium pages MI_MEDIUM_PAGE_SIZE
    ctx.check(R, psz[True] == slice_sz and psz[False] >= 2 * guar, "include/mimalloc/types.h", "small page = one slice (%d), medium page (%d) >= 2*MI_MAX_ALIGN_GUARANTEE so the adjustment always fits" % (psz[True], psz[False]), key="C03.R5:kinds")
    ctx.floor(R, 6)


def r6(ctx, prog):
    R = ctx.rule("C03.R6", "huge alignment: an offset with alignment > MI_BLOCK_ALIGNMENT_MAX is refused before allocating; the block is placed with _mi_os_alloc_aligned_at_offset "
                           "so that its start may coincide with a segment boundary (resolvable by C16.A8)")
    f = prog.fn("mi_heap_malloc_zero_aligned_at_overalloc")
    cfg = f.cfg
    of = f.param_id(3)
    amax = prog.const("MI_BLOCK_ALIGNMENT_MAX")
    for c in f.calls("_mi_heap_malloc_zero_ex"):
        w = cfg.guarded(cfg.pt(c), lambda e, pol: isinstance(e, int) and rl.fact_null(f, e, pol, rl.is_var(f, of)))
        ctx.check(R, w is None, f.where(c), "the huge-alignment allocation happens only for offset == 0", key="C03.R6:offset", witness=w)
        def big(e, pol):
            if not isinstance(e, int):
                return False
            cc = rl.norm_cmp(f, e, pol)
            return cc is not None and cc[0] == ">" and f.cv(cc[2]) == amax and rl.var_of(f, cc[1]) == f.param_id(2)
        w = cfg.guarded(cfg.pt(c), big)
        ctx.check(R, w is None, f.where(c), "and only for alignment > MI_BLOCK_ALIGNMENT_MAX", key="C03.R6:big", witness=w)
        ctx.check(R, rl.var_of(f, rl.arg(f, c, 3)) == f.param_id(2), f.where(c), "the alignment is passed down as huge_alignment", key="C03.R6:pass")
    g = prog.fn("mi_segment_os_alloc")
    ok = any(rl.is_call(g, c, "_mi_arena_alloc_aligned") and rl.var_of(g, rl.arg(g, c, 1)) is not None and rl.var_of(g, rl.arg(g, c, 2)) is not None for c in g.calls("_mi_arena_alloc_aligned"))
    ctx.check(R, ok, g.where(), "segment allocation forwards (alignment, align_offset)", key="C03.R6:segment")
    ctx.floor(R, 4)


def r7(ctx, prog):
    R = ctx.rule("C03.R7", "usable >= requested: the block comes from the queue of mi_bin(size+padding) whose block size is >= the padded size (C16.A1); with padding the recorded "
                           "slack delta = block usable − requested is stored at allocation")
    f = prog.fn("mi_heap_malloc_small_zero")
    pad = prog.const("MI_PADDING_SIZE")
    for c in f.calls(("_mi_heap_get_free_small_page", "_mi_page_malloc_zero")):
        k = 1 if f.nodes[c]["callee"] == "_mi_heap_get_free_small_page" else 2
        t = rl.canon(f, rl.arg(f, c, k)).replace(" ", "")
        ctx.check(R, t in ("($1+%d)" % pad, "(%d+$1)" % pad, "$1") if pad else True, f.where(c), "%s is asked for size + MI_PADDING_SIZE (%s)" % (f.nodes[c]["callee"], t), key="C03.R7:small")
    g = prog.fn("_mi_heap_get_free_small_page")
    ok = any(rl.is_call(g, x, "_mi_wsize_from_size") for x in g.all(kind="CallExpr")) and any(g.nodes[x]["k"] == "ArraySubscriptExpr" and g.mentions_field(x, "pages_free_direct") for x in g.all())
    ctx.check(R, ok, g.where(), "direct page lookup indexes pages_free_direct by wsize(size)", key="C03.R7:direct")
    h = prog.fn("mi_heap_queue_first_update")
    ok = any(True for _ in h.calls(("mi_bin", "_mi_bin"))) or any(h.mentions_call(x, "mi_bin") for x in h.all(kind="CallExpr"))
    ctx.check(R, ok, h.where(), "the direct table is filled per bin with mi_bin (sibling of the allocator's lookup)", key="C03.R7:first_update")
    ctx.floor(R, 3)


def r8(ctx, prog):
    R = ctx.rule("C03.R8", "an interior pointer is mapped back relative to the page's own block area: in _mi_page_ptr_unalign the offset that is masked / reduced modulo the "
                           "block size is p − page->page_start (blocks above MI_MAX_ALIGN_GUARANTEE do not start at a multiple of their size, so the raw address must not be used)")
    f = prog.fn("_mi_page_ptr_unalign")
    pp = f.param_id(1)
    n = 0
    for x in f.all(kind="BinaryOperator"):
        node = f.nodes[x]
        if node["op"] not in ("&", "%") or f.cv(x) is not None or node.get("macro") in ("mi_assert_internal", "mi_assert"):
            continue
        t = rl.canon(f, node["c"][0]).replace(" ", "")
        if "$1" not in t:
            continue          # not an operation on the pointer
        n += 1
        ctx.check(R, t in ("($1-$0->page_start)",), f.where(x), "the reduced value is p - page->page_start (found %s)" % t, key="C03.R8:relative")
    if n < 2:
        ctx.broke("C03.R8: fewer than 2 reductions of the pointer offset in _mi_page_ptr_unalign (%d)" % n)
    ctx.floor(R, 2)


def run(ctx):
    ctx.explanation = ("Static decision of C03's code-shaped necessary conditions: flag set on every path returning an interior pointer; linear-inequality proof (and witness search) for the "
                       "over-allocation bound; structural form of the adjustment; guards of every consumer path; flag-byte integrity; exhaustive residue analysis (abstract interpretation of "
                       "the extracted source for every produced block size and every page-start residue) of the block-size alignment of page starts; huge-alignment plumbing. "
                       "NOT decided: the alignment of one particular returned address for a given heap state.")
    ctx.trusted = ctx.trusted + ["/verif/lib/absint.py (interval/residue evaluation of extracted expressions)"]
    for c in (["REL"] if ctx.tier == "quick" else ["REL", "SEC", "DBG"]):
        prog = ctx.prog(c)
        n0 = len(ctx.instances)
        r1(ctx, prog); r2(ctx, prog); r3(ctx, prog); r4(ctx, prog); r5(ctx, prog); r6(ctx, prog); r7(ctx, prog); r8(ctx, prog)
        if c != "REL":
            for i in ctx.instances[n0:]:
                i["site"] += " [%s]" % c
                if not i["ok"]:
                    i["key"] += ":" + c
