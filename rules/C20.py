"""C20 — options, environment parsing and diagnostics are total and memory-safe (DESIGN §4 C20). Level: other.

Decided: option table agreement (R1), constant bounds of every bounded-writer call (R2), index bounds by upper-bound dataflow (R3),
cursor discipline of the primitive writers (R4), parse saturation / malformed input leaves the default (R5), keywords by whole-token
equality (R5b), totality of option get/set (R6). Not decided: full functional correctness of the parser; libc's strtol; the in-place
digit reversal of mi_out_num (relational bound).
"""
import os
import rl, bounds
from facts import AnalysisBroken

LEVEL = "other"
WRITERS = {  # callee -> (dest argument, size argument)
    "_mi_snprintf": (0, 1), "_mi_vsnprintf": (0, 1), "_mi_strlcpy": (0, 2), "_mi_strlcat": (0, 2),
    "_mi_getenv": (1, 2), "_mi_prim_getenv": (1, 2), "mi_getenv": (1, 2),
}
SCOPE_FILES = ("options.c", "stats.c", "libc.c")
SCOPE_EXTRA = ("mi_debug_show_bitmap", "_mi_prim_getenv", "_mi_prim_numa_node_count", "mi_prim_read_proc_meminfo", "unix_detect_overcommit", "mi_strndup", "mi_heap_strndup", "mi_heap_realpath")


def scope(prog):
    fs = [f for f in prog.fns.values() if os.path.basename(f.file) in SCOPE_FILES or f.name in SCOPE_EXTRA]
    return sorted(fs, key=lambda f: (f.file, f.line))


def array_size(prog, f, base):
    """(N, description) if expression `base` denotes an array object of known constant length"""
    j = f.strip(base)
    n = f.nodes[j]
    if n["k"] == "DeclRefExpr":
        if n["dk"] in ("local", "slocal"):
            for ds, dd in rl.local_decl(f, lambda dd: dd["d"] == n["d"]):
                if "arr" in dd:
                    return dd["arr"], "%s[%d]" % (dd["n"], dd["arr"])
        if n["dk"] == "global":
            g = prog.globals.get(n["n"])
            if g and "arr" in g:
                return g["arr"], "%s[%d]" % (n["n"], g["arr"])
    if n["k"] == "MemberExpr":
        rec = prog.records.get(n.get("rec") or "")
        if rec:
            for fd in rec["fields"]:
                if fd["n"] == n["fld"] and "arr" in fd and fd["arr"] > 0:
                    return fd["arr"], "%s.%s[%d]" % (rec["name"], fd["n"], fd["arr"])
    return None, None


def r1(ctx, prog):
    R = ctx.rule("C20.R1", "option table: options[i].option == i for every option, the table has exactly _mi_option_last rows, names are non-NULL and "
                           "\"mimalloc_\"+name fits the 64-character lookup buffer")
    g = prog.globals.get("options")
    if g is None or not isinstance(g.get("val"), list):
        raise AnalysisBroken("C20.R1: global `options` with a folded initialiser not found")
    rows = g["val"]
    last = prog.const("_mi_option_last")
    ctx.check(R, len(rows) == last, "src/options.c options[]", "table has %d rows, _mi_option_last = %d" % (len(rows), last), key="C20.R1:len")
    f = prog.fn("mi_option_init")
    bufN = min([dd["arr"] for _, dd in rl.local_decl(f, lambda dd: "arr" in dd)] or [0])
    for i, row in enumerate(rows):
        if row is None:
            ctx.fail(R, "options[%d]" % i, "row missing in the initialiser", key="C20.R1:row:%d" % i)
            continue
        name = (row.get("name") or {}).get("str") if isinstance(row.get("name"), dict) else None
        ok = row.get("option") == i and name is not None
        leg = (row.get("legacy_name") or {}).get("str") if isinstance(row.get("legacy_name"), dict) else None
        longest = max(len(name or ""), len(leg or ""))
        ok = ok and len("mimalloc_") + longest <= bufN - 1
        ctx.check(R, ok, "options[%d]" % i, "option=%s name=%s legacy=%s (buffer %d)" % (row.get("option"), name, leg, bufN), key="C20.R1:row:%d" % i)
    # enumerators are dense 0.._mi_option_last-1
    en = sorted(v for k, v in prog.enums.items() if k.startswith("mi_option_") and not k.startswith("mi_option_deprecated") and k in _option_enumerators(prog))
    ctx.floor(R, 30)


def _option_enumerators(prog):
    return {k for k in prog.enums if k.startswith("mi_option_")}


def r2(ctx, prog):
    R = ctx.rule("C20.R2", "every call of a bounded writer with an array destination passes a constant size <= the array; with a pointer destination it "
                           "forwards the caller's own (pointer, size) parameter pair")
    n = 0
    for f in prog.fns.values():
        for c in f.calls(tuple(WRITERS)):
            di, si = WRITERS[f.nodes[c]["callee"]]
            args = f.nodes[c]["args"]
            if max(di, si) >= len(args):
                continue
            dst, sz = args[di], args[si]
            N, desc = array_size(prog, f, dst)
            n += 1
            site = f.where(c)
            if N is not None:
                v = f.cv(sz)
                if v is None:
                    d = rl.var_of(f, sz)
                    if d is not None:
                        defs = f.var_defs(d)
                        if len(defs) == 1 and defs[0][1] is not None and f.cv(defs[0][1]) is not None and d not in f.pids:
                            v = f.cv(defs[0][1])
                ctx.check(R, v is not None and 0 < v <= N, site, "%s(%s, size=%s): size must be a constant <= %d" % (f.nodes[c]["callee"], desc, f.text(sz), N),
                          key="C20.R2:%s:%s" % (f.name, f.nodes[c]["callee"]))
            else:
                dd, sd = rl.var_of(f, dst), rl.var_of(f, sz)
                # destination derived from a parameter: size must be the matching size parameter (possibly reduced)
                ok = dd in f.pids and sd in f.pids
                if not ok and dd in f.pids:
                    ok = any(x in f.pids for x in [rl.var_of(f, y) for y in f.walk(sz) if f.nodes[y]["k"] == "DeclRefExpr"])
                if not ok:
                    # heap buffer with a recorded size field next to it
                    ok = f.nodes[f.strip(dst)]["k"] == "MemberExpr" and f.nodes[f.strip(sz)]["k"] in ("MemberExpr", "BinaryOperator")
                ctx.check(R, ok, site, "%s(%s, size=%s): pointer destination with its own size parameter" % (f.nodes[c]["callee"], f.text(dst), f.text(sz)),
                          key="C20.R2:%s:%s:ptr" % (f.name, f.nodes[c]["callee"]))
    ctx.floor(R, 20)


def r3(ctx, prog):
    R = ctx.rule("C20.R3", "every subscript of a fixed-size array in the option/diagnostic code has an index provably <= N-1 on all paths "
                           "(upper-bound dataflow: initialisers, dominating guards, clamp idiom), unsigned or guarded below by 0")
    n = 0
    for f in scope(prog):
        subs = [i for i in f.all(kind="ArraySubscriptExpr")]
        if not subs:
            continue
        st = None
        for s in subs:
            base, idx = f.nodes[s]["c"]
            N, desc = array_size(prog, f, base)
            if N is None:
                continue
            n += 1
            if st is None:
                st = bounds.analyse(f)
            acc = f.access(s)
            limit = N if acc == "addr" else N - 1
            ub, _ = bounds.ub_at(f, st, s, idx)
            okub = ub is not None and ub <= limit
            w = f.nodes[f.strip(idx, casts=False)].get("w", 0) if False else f.nodes[f.strip(idx)].get("w", 0)
            oklb = True
            if w < 0 and f.cv(idx) is None:
                d = rl.var_of(f, idx)
                def nonneg(e, pol):
                    if not isinstance(e, int):
                        return False
                    c = rl.oriented(f, e, pol, rl.is_local(f, d), rl.is_const(f))
                    return c is not None and c[0] in (">=", ">") and f.cv(c[2]) >= (0 if c[0] == ">=" else -1)
                oklb = d is not None and f.cfg.guarded(f.cfg.pt(s), nonneg) is None
            if not okub and f.nodes[f.strip(base)]["k"] == "DeclRefExpr" and f.nodes[f.strip(base)]["n"] == "options":
                continue   # decided by C20.R6 (guards / in-range constants at every call site)
            ctx.check(R, okub and oklb, f.where(s), "%s indexed by %s: upper bound %s (need <= %d)%s" % (desc, f.text(idx), ub, limit, "" if oklb else "; signed index without a lower-bound guard"),
                      key="C20.R3:%s:%s" % (f.name, desc.split("[")[0]))
    # mi_out_buf: the memcpy into out_buf[start..start+n) — relational clamp
    f = prog.fn("mi_out_buf")
    cfg = f.cfg
    for c in f.calls(("_mi_memcpy", "memcpy")):
        dst, ln = rl.arg(f, c, 0), rl.arg(f, c, 2)
        sub = next((x for x in f.walk(dst) if f.nodes[x]["k"] == "ArraySubscriptExpr"), None)
        if sub is None:
            continue
        N, desc = array_size(prog, f, f.nodes[sub]["c"][0])
        sd, nd = rl.var_of(f, f.nodes[sub]["c"][1]), rl.var_of(f, ln)
        n += 1
        if N is None or sd is None or nd is None:
            ctx.fail(R, f.where(c), "cannot bind (array, start, n) of the delayed-output copy", key="C20.R3:mi_out_buf:bind")
            continue
        def within(e, pol):
            """fact  start + n < K  with K <= N"""
            if not isinstance(e, int):
                return False
            cc = rl.oriented(f, e, pol, lambda j: f.nodes[j]["k"] == "BinaryOperator" and f.nodes[j]["op"] == "+" and f.cv(j) is None, rl.is_const(f))
            if cc is None or cc[0] not in ("<", "<="):
                return False
            l = cc[1]
            k = f.cv(cc[2])
            ds = {rl.var_of(f, f.nodes[l]["c"][0]), rl.var_of(f, f.nodes[l]["c"][1])}
            return ds == {sd, nd} and (k <= N if cc[0] == "<" else k < N)
        def clamp(e):
            """n = K - start - c  (c >= 0, K <= N)"""
            m = f.nodes[e]
            if m["k"] != "BinaryOperator" or m["op"] != "=" or rl.var_of(f, m["c"][0]) != nd:
                return False
            pm = {d: "$%d" % k for k, d in enumerate(f.pids)}
            pm[sd] = "#start"
            txt = rl.canon(f, m["c"][1], pm).replace(" ", "")
            import re
            mm = re.fullmatch(r"\(\((\d+)-#start\)-(\d+)\)", txt)
            return bool(mm) and int(mm.group(1)) <= N
        def eok(lab, p, q):
            return not any(within(e, pol) for e, pol in cfg.facts(lab))
        w = cfg.must_pass([cfg.entry], [cfg.pt(c)], clamp, edge_ok=eok)
        ctx.check(R, w is None, f.where(c), "copy into %s: every path establishes start+n < %d or clamps n = MAX-start-1" % (desc, N), key="C20.R3:mi_out_buf:clamp", witness=w)
        def start_lt(e, pol):
            if not isinstance(e, int):
                return False
            return rl.establishes(f, e, pol, "<", rl.is_local(f, sd), rl.is_const(f, lambda v: v <= N))
        w = cfg.guarded(cfg.pt(c), start_lt)
        ctx.check(R, w is None, f.where(c), "copy into %s only when start < MAX (so MAX-start-1 cannot wrap)" % desc, key="C20.R3:mi_out_buf:start", witness=w)
    # buffered output (dynamic size): budget analysis over (point, remaining increments) states
    for fname, fld_used, fld_cap, refill, extra, refill_budget in (("mi_buffered_out", "used", "count", "mi_buffered_flush", 1, 0),
                                                                    ("mi_heap_buf_print", "used", "size", "mi_heap_buf_expand", 0, 1)):
        if not prog.has(fname):
            continue
        f = prog.fn(fname)
        n += 1
        # mi_heap_buf_print relies on the inter-call invariant used < size (its own assertion): assumed at entry, and required at every exit
        inv = (fname == "mi_heap_buf_print")
        bad = _budget(f, fld_used, fld_cap, refill, extra, refill_budget, entry=0 if inv else -1, check_exit=inv)
        ctx.check(R, not bad, f.where(), "every store at [%s] happens with the index provably inside the buffer: since the last `%s + c < %s` guard (or %s) at most c%s increments"
                  % (fld_used, fld_used, fld_cap, refill, "+1 (buffer has one spare byte)" if extra else ""), key="C20.R3:%s" % fname, witness=bad)
    if prog.has("mi_heap_buf_expand"):
        g = prog.fn("mi_heap_buf_expand")
        n += 1
        ok = False
        for r in g.all(kind="ReturnStmt"):
            if "val" in g.nodes[r] and g.cv(g.nodes[r]["val"]) == 1:
                sts = [a for a, l, rhs, op in g.field_stores("size") if rhs is not None]
                grow = [dd for _, dd in rl.local_decl(g, lambda dd: "init" in dd and g.mentions_field(dd["init"], "size") and any(g.nodes[x]["k"] == "BinaryOperator" and g.nodes[x]["op"] == "*" and 2 in (g.cv(g.nodes[x]["c"][0]), g.cv(g.nodes[x]["c"][1])) for x in g.walk(dd["init"])))]
                ok = bool(sts) and bool(grow) and all(rl.precedes(g, lambda e: e in sts, r) is None for _ in [0])
        ctx.check(R, ok, g.where(), "a successful expand stored a doubled (or fresh 2 KiB) size: room for at least one more character and the terminator", key="C20.R3:expand")
    # stack buffers handed to the buffered printer have count <= sizeof(buf) - 1
    for f in prog.fns.values():
        for ds, dd in rl.local_decl(f, lambda dd: dd["t"] == "buffered_t" and "init" in dd):
            n += 1
            il = f.strip(dd["init"])
            kids = f.kids(il)
            cnt = f.cv(kids[-1]) if kids else None
            arrs = [d2["arr"] for _, d2 in rl.local_decl(f, lambda d2: "arr" in d2 and d2["t"].startswith("char"))]
            bufset = [rhs for a, l, rhs, op in f.field_stores("buf") if rhs is not None]
            ok = cnt is not None and arrs and cnt <= min(arrs) - 1
            ctx.check(R, ok, f.where(ds), "buffered_t count=%s for a char[%s] buffer (needs count <= size-1)" % (cnt, min(arrs) if arrs else "?"), key="C20.R3:buffered_init:%s" % f.name)
    if prog.has("mi_buffered_flush"):
        g = prog.fn("mi_buffered_flush")
        ok = any(rl.store_field_const(g, "used", 0)(e) for e in g.all())
        ctx.check(R, ok, g.where(), "flush resets used = 0", key="C20.R3:flush")
        n += 1
    ctx.floor(R, 12)


def r4(ctx, prog):
    R = ctx.rule("C20.R4", "primitive writers: every store through the output cursor is dominated, since the cursor last moved, by `p < end` for the same cursor "
                           "and limit; strlcpy decrements its budget once per store; vsnprintf writes only through them with one (out,end) pair")
    for fname in ("mi_outc", "mi_outs", "mi_out_fill"):
        f = prog.fn(fname)
        cfg = f.cfg
        endp = next((f.param_id(k) for k, p in enumerate(f.d["params"]) if p["n"] == "end" or (p["t"] == "char *" and k == len(f.d["params"]) - 1)), None)
        stores = []
        for a, lhs, rhs, op in f.stores():
            l = f.strip(lhs)
            if f.nodes[l]["k"] == "UnaryOperator" and f.nodes[l]["op"] == "*":
                t = f.strip(f.nodes[l]["c"][0])
                if f.nodes[t]["k"] == "UnaryOperator" and f.nodes[t]["op"] in ("post++", "pre++"):
                    t = f.strip(f.nodes[t]["c"][0])
                d = rl.var_of(f, t)
                if d is not None and d not in f.pids and "char" in f.nodes[t].get("t", ""):
                    stores.append((a, d))
        if not stores:
            ctx.broke("C20.R4: no cursor store found in %s" % fname)
        for a, d in stores:
            moves = [x for x, kind, opnd in f.var_updates(d)]
            def lt_end(e, pol):
                if not isinstance(e, int):
                    return False
                return rl.establishes(f, e, pol, "<", rl.is_local(f, d), rl.is_local(f, endp))
            def eok(lab, p, q):
                return not any(lt_end(e, pol) for e, pol in cfg.facts(lab))
            starts = [cfg.entry] + [cfg.after(m) for m in moves if m != a and not _inside(f, m, a)]
            seen = cfg.reach(starts, edge_ok=eok)
            ctx.check(R, cfg.pt(a) not in seen, f.where(a), "store through the cursor only after `p < end` since the cursor last moved", key="C20.R4:%s" % fname)
    # strlcpy
    f = prog.fn("_mi_strlcpy")
    cfg = f.cfg
    dest, size = f.param_id(0), f.param_id(2)
    st = [(a, lhs) for a, lhs, rhs, op in f.stores() if f.nodes[f.strip(lhs)]["k"] == "UnaryOperator" and f.nodes[f.strip(lhs)]["op"] == "*" and f.mentions_decl(lhs, dest)]
    incs = [x for x, kind, opnd in f.var_updates(dest) if kind == "add" and opnd == 1]
    decs = [x for x, kind, opnd in f.var_updates(size) if kind == "sub" and opnd == 1]
    ctx.check(R, len(st) == 2 and len(incs) == 1 and len(decs) == 1, f.where(), "_mi_strlcpy: one copying store with dest++, one terminating store, one dest_size--", key="C20.R4:strlcpy:shape")
    def gt1(e, pol):
        if not isinstance(e, int):
            return False
        c = rl.oriented(f, e, pol, rl.is_local(f, size), rl.is_const(f))
        return c is not None and ((c[0] == ">" and f.cv(c[2]) == 1) or (c[0] == ">=" and f.cv(c[2]) == 2))
    for a, lhs in st:
        if any(_inside(f, i, a) for i in incs):
            seen = cfg.reach([cfg.entry] + [cfg.after(d) for d in decs], edge_ok=lambda lab, p, q: not any(gt1(e, pol) for e, pol in cfg.facts(lab)))
            ctx.check(R, cfg.pt(a) not in seen, f.where(a), "copying store only under `dest_size > 1` since the last decrement", key="C20.R4:strlcpy:guard")
            w = cfg.must_pass([cfg.after(a)], [cfg.pt(a)] + cfg.exit_points(), lambda e: e in decs)
            ctx.check(R, w is None, f.where(a), "each copying store is followed by exactly one dest_size-- before the next store or the terminator", key="C20.R4:strlcpy:dec", witness=w)
        else:
            def nz(e, pol):
                if not isinstance(e, int):
                    return False
                return rl.fact_nonnull(f, e, pol, rl.is_var(f, size))
            w = cfg.guarded(cfg.pt(a), nz)
            ctx.check(R, w is None, f.where(a), "terminating store only when dest_size != 0", key="C20.R4:strlcpy:term", witness=w)
    g = prog.fn("_mi_strlcat")
    for c in g.calls("_mi_strlcpy"):
        ok = rl.var_of(g, rl.arg(g, c, 0)) == g.param_id(0) and rl.var_of(g, rl.arg(g, c, 2)) == g.param_id(2)
        ctx.check(R, ok, g.where(c), "_mi_strlcat hands the advanced cursor and the reduced budget to _mi_strlcpy", key="C20.R4:strlcat")
    incs = [x for x, kind, opnd in g.var_updates(g.param_id(0)) if kind == "add" and opnd == 1]
    decs = [x for x, kind, opnd in g.var_updates(g.param_id(2)) if kind == "sub" and opnd == 1]
    ok = len(incs) == 1 and len(decs) == 1 and g.cfg.must_pass([g.cfg.after(incs[0])], [g.cfg.pt(incs[0])] + g.cfg.exit_points(), lambda e: e in decs) is None
    ctx.check(R, ok, g.where(), "_mi_strlcat: one dest_size-- per dest++", key="C20.R4:strlcat:pair")
    # vsnprintf
    v = prog.fn("_mi_vsnprintf")
    ends = [dd for _, dd in rl.local_decl(v, lambda dd: dd["n"] == "end" or ("init" in dd and dd["t"].startswith("char *") and v.mentions_decl(dd["init"], v.param_id(1))))]
    outs = [dd for _, dd in rl.local_decl(v, lambda dd: "init" in dd and rl.var_of(v, dd["init"]) == v.param_id(0))]
    if not ends or not outs:
        ctx.broke("C20.R4: _mi_vsnprintf: end/out locals not found")
    else:
        end_d, out_d = ends[0]["d"], outs[0]["d"]
        txt = rl.canon(v, ends[0]["init"]).replace(" ", "")
        ctx.check(R, txt in ("($0+($1-1))", "(($0+$1)-1)"), v.where(), "end = buf + (bufsize - 1): %s" % txt, key="C20.R4:vsnprintf:end")
        ctx.check(R, len(v.var_defs(end_d)) == 1, v.where(), "end is never re-assigned", key="C20.R4:vsnprintf:end_const")
        for c in v.calls(("mi_outc", "mi_outs", "mi_out_fill", "mi_out_num", "mi_out_alignright")):
            args = v.nodes[c]["args"]
            has_end = rl.var_of(v, args[-1]) == end_d
            cur = [a for a in args if v.nodes[v.strip(a)]["k"] == "UnaryOperator" and v.nodes[v.strip(a)]["op"] == "&"]
            okc = all(rl.var_of(v, v.nodes[v.strip(a)]["c"][0]) == out_d for a in cur)
            ctx.check(R, has_end and okc, v.where(c), "%s is given (&out, end) of this buffer" % v.nodes[c]["callee"], key="C20.R4:vsnprintf:%s" % v.nodes[c]["callee"])
        direct = []
        for a, lhs, rhs, op in v.stores():
            l = v.strip(lhs)
            if v.nodes[l]["k"] in ("ArraySubscriptExpr",) or (v.nodes[l]["k"] == "UnaryOperator" and v.nodes[l]["op"] == "*"):
                direct.append((a, l))
        for a, l in direct:
            t = rl.canon(v, l).replace(" ", "")
            ok = t in ("$0[($1-1)]", "*out")
            if t == "*out" or (v.nodes[l]["k"] == "UnaryOperator" and rl.var_of(v, v.nodes[l]["c"][0]) == out_d):
                ok = v.cv(rhs) == 0
            ctx.check(R, ok, v.where(a), "direct store in _mi_vsnprintf is one of the two terminators (%s)" % t, key="C20.R4:vsnprintf:direct")
        nz = v.cfg.guarded(v.cfg.pt(direct[0][0]), lambda e, pol: isinstance(e, int) and rl.fact_nonnull(v, e, pol, rl.is_var(v, v.param_id(1)))) if direct else ["none"]
        ctx.check(R, nz is None, v.where(), "buf[bufsize-1] only when bufsize != 0", key="C20.R4:vsnprintf:nonzero", witness=nz)
    ar = prog.fn("mi_out_alignright")
    cfg = ar.cfg
    def fits(e, pol):
        if not isinstance(e, int):
            return False
        return rl.establishes(ar, e, pol, "<", lambda j: all(ar.mentions_decl(j, ar.param_id(k)) for k in (1, 2, 3)), rl.is_local(ar, ar.param_id(4)))
    for a, lhs, rhs, op in ar.stores():
        if ar.nodes[ar.strip(lhs)]["k"] == "ArraySubscriptExpr":
            w = cfg.guarded(cfg.pt(a), fits)
            ctx.check(R, w is None, ar.where(a), "shifting stores only when start+len+extra < end", key="C20.R4:alignright", witness=w)
    ctx.floor(R, 18)


def _budget(f, fld_used, fld_cap, refill, extra, refill_budget, entry=-1, check_exit=False):
    """explore (point, remaining) states: remaining = number of further increments of `used` for which the index is still known to be
    inside the buffer; -1 = nothing known. Returns the source lines of stores reached with remaining < 0."""
    cfg = f.cfg
    N = f.nodes

    def guard_budget(lab):
        best = None
        for e, pol in cfg.facts(lab):
            c = rl.oriented(f, e, pol, lambda j: f.mentions_field(j, fld_used), rl.is_field(f, fld_cap))
            if c is None or c[0] not in ("<", "<="):
                continue
            l, r = c[1], c[2]
            lj = f.strip(l)
            k = 0
            if N[lj]["k"] == "BinaryOperator" and N[lj]["op"] == "+":
                k = f.cv(N[lj]["c"][1]) or f.cv(N[lj]["c"][0]) or 0
            elif not rl.field_is(f, l, fld_used):
                continue
            if c[0] == "<=":
                k -= 1
            b = k + extra
            best = b if best is None else max(best, b)
        return best
    seen = set()
    bad = []
    work = [(cfg.entry, entry)]
    exits = set(cfg.exit_points())
    while work:
        p, r = work.pop()
        if (p, r) in seen:
            continue
        seen.add((p, r))
        if check_exit and p in exits and r < 0:
            bad.append("exit without re-establishing %s < %s" % (fld_used, fld_cap))
        e = cfg.elem_at(p)
        if e is not None:
            n = N[e]
            if n["k"] == "UnaryOperator" and n["op"] in ("post++", "pre++") and rl.field_is(f, n["c"][0], fld_used):
                par = f.up(e)
                if par is not None and N[par]["k"] == "ArraySubscriptExpr" and f.access(par) in ("write", "rw"):
                    if r < 0:
                        bad.append(f.loc(e))
                r = max(r - 1, -1)
            elif n["k"] == "ArraySubscriptExpr" and f.access(e) in ("write", "rw") and rl.field_is(f, n["c"][1], fld_used):
                if r < 0:
                    bad.append(f.loc(e))
            elif n["k"] == "CallExpr" and n.get("callee") == refill:
                r = max(r, refill_budget)
            elif n["k"] == "BinaryOperator" and n["op"] == "=" and rl.field_is(f, n["c"][0], fld_used):
                r = 0 if f.cv(n["c"][1]) == 0 else -1
        for q, lab in cfg.edges.get(p, []):
            b = guard_budget(lab) if lab is not None else None
            # a failed refill (false result) leaves the function in these routines; a true result keeps the budget
            work.append((q, r if b is None else max(b, 0) if b >= 0 else r))
    return sorted(set(bad))


def _inside(f, inner, outer):
    x = inner
    while x is not None:
        if x == outer:
            return True
        x = f.parent.get(x)
    return False


def r5(ctx, prog):
    R = ctx.rule("C20.R5", "option parsing saturates instead of overflowing and a malformed value leaves the option at its default (init = DEFAULTED, value untouched)")
    f = prog.fn("mi_option_init")
    cfg = f.cfg
    # the parser = mi_option_init and the private helpers it calls (the size arithmetic may live in either)
    reg = prog.region("mi_option_init", cut=("mi_option_is_keyword", "mi_option_has_size_in_kib"))
    # multiplications of the parsed size go through mi_mul_overflow
    muls = [(g, x) for g in reg for x in g.all(kind="BinaryOperator") if g.nodes[x]["op"] == "*" and g.cv(x) is None]
    ctx.check(R, not muls, f.where(), "no unchecked multiplication of the parsed value %s" % [g.loc(m) for g, m in muls], key="C20.R5:mul")
    ctx.check(R, sum(1 for g in reg for _ in g.calls("mi_mul_overflow")) >= 3, f.where(), "K/M/G/T suffixes multiply with mi_mul_overflow", key="C20.R5:mulov")
    maxalloc = prog.const("MI_MAX_ALLOC_SIZE")
    # an edge that establishes size > MI_MAX_ALLOC_SIZE leads, on every path, to a store of a constant that is in range
    ok = False
    for g in reg:
        for p_, q, e, pol in rl.edges_with_fact(g, lambda e, pol, g=g: isinstance(e, int) and rl.establishes(g, e, pol, ">", lambda j: g.cv(j) is None, rl.is_const(g, lambda v: v == maxalloc))):
            w = g.cfg.must_pass([q], g.cfg.exit_points(), lambda x, g=g: g.nodes[x]["k"] == "BinaryOperator" and g.nodes[x]["op"] == "=" and g.cv(g.nodes[x]["c"][1]) is not None and
                                0 <= g.cv(g.nodes[x]["c"][1]) <= maxalloc)
            ok = ok or w is None
    ctx.check(R, ok, f.where(), "size > MI_MAX_ALLOC_SIZE saturates", key="C20.R5:sat1")
    longmax = prog.const("LONG_MAX")
    ok = False
    for g in reg:
        for x in g.all(kind="ConditionalOperator"):
            n = g.nodes[x]
            for pol, br in ((True, n["then"]), (False, n["else"])):
                if rl.establishes(g, n["cond"], pol, ">", lambda j: g.cv(j) is None, rl.is_const(g, lambda v: v == longmax)) and g.cv(br) == longmax:
                    ok = True
    ctx.check(R, ok, f.where(), "size > LONG_MAX saturates to LONG_MAX", key="C20.R5:sat2")
    # malformed: *end != 0 edge: init = DEFAULTED on every path; value not changed except the verbose toggle that is restored
    def end_nonzero(e, pol):
        if not isinstance(e, int):
            return False
        c = rl.norm_cmp(f, e, pol)
        if c is None or c[0] != "!=" or f.cv(c[2]) != 0:
            return False
        j = f.strip(c[1])
        return f.nodes[j]["k"] == "UnaryOperator" and f.nodes[j]["op"] == "*"
    hit = [q for p, q, e, pol in rl.edges_with_fact(f, end_nonzero)]
    # keep only the last such test (the one that decides acceptance): the one from which mi_option_set is unreachable
    hit = [q for q in hit if not rl.can_reach_call(f, q, lambda m: m.get("callee") == "mi_option_set")]
    dflt = prog.enums.get("DEFAULTED")
    ok = bool(hit) and all(cfg.must_pass([q], cfg.exit_points(), lambda e: f.nodes[e]["k"] == "BinaryOperator" and f.nodes[e]["op"] == "=" and rl.field_is(f, f.nodes[e]["c"][0], "init")
                                         and f.cv(f.nodes[e]["c"][1]) == dflt) is None for q in hit)
    ctx.check(R, ok, f.where(), "malformed value: desc->init = DEFAULTED on every path", key="C20.R5:defaulted")
    bad = []
    for q in hit:
        for p in cfg.reach([q]):
            e = cfg.elem_at(p)
            if e is not None and f.nodes[e]["k"] == "BinaryOperator" and f.nodes[e]["op"] == "=" and rl.field_is(f, f.nodes[e]["c"][0], "value"):
                v = f.cv(f.nodes[e]["c"][1])
                if v == 1:
                    w = rl.followed_by(f, e, rl.store_field_const(f, "value", 0))
                    if w is not None:
                        bad.append(f.loc(e))
                elif v != 0:
                    bad.append(f.loc(e))
    ctx.check(R, not bad, f.where(), "malformed value: desc->value is not modified (the verbose toggle is restored to 0)", key="C20.R5:value", witness=bad)
    # accepted only when the whole string was consumed
    for c in f.calls("mi_option_set"):
        def end_zero(e, pol):
            if not isinstance(e, int):
                return False
            cc = rl.norm_cmp(f, e, pol)
            if cc is None or cc[0] != "==" or f.cv(cc[2]) != 0:
                return False
            j = f.strip(cc[1])
            return f.nodes[j]["k"] == "UnaryOperator" and f.nodes[j]["op"] == "*"
        w = cfg.guarded(cfg.pt(c), end_zero)
        ctx.check(R, w is None, f.where(c), "a numeric value is accepted only when *end == 0 (whole string consumed)", key="C20.R5:consumed", witness=w)
    ctx.floor(R, 7)


def r5b(ctx, prog):
    R = ctx.rule("C20.R5b", "boolean keywords are recognised by whole-token equality; no containment test with the environment value as the needle")
    f = prog.fn("mi_option_init")
    bad = [c for c in f.calls(("strstr", "_mi_strstr", "strcasestr")) if any(v.get("k") == "StringLiteral" for v in [f.nodes[f.strip(rl.arg(f, c, 0))]])]
    ctx.check(R, not bad, f.where(bad[0]) if bad else f.where(), "no strstr(<keyword list literal>, value): every substring of the list would be accepted as a keyword"
              if bad else "no containment test over a keyword list", key="C20.R5b:mi_option_init")
    # the true/false decisions are taken on an equality comparison (strcmp-family result == 0, or a helper that compares length and content)
    hits = 0
    for a, l, rhs, op in f.field_stores("value"):
        v = f.cv(rhs) if rhs is not None else None
        if v in (0, 1) and not rl.can_reach_call(f, f.cfg.after(a), lambda m: m.get("callee") == "_mi_warning_message"):
            hits += 1
    helpers = [c for c in f.calls() if f.nodes[c].get("callee") in ("mi_option_is_keyword", "_mi_strnicmp", "strcmp", "_mi_streq")]
    ok = hits >= 2 and len(helpers) >= 2
    ctx.check(R, ok, f.where(), "true/false keyword branches decided by %s" % sorted({f.nodes[c]["callee"] for c in helpers}), key="C20.R5b:mi_option_init:eq")
    if prog.has("mi_option_is_keyword"):
        g = prog.fn("mi_option_is_keyword")
        rt = [r for r in g.all(kind="ReturnStmt") if g.cv(g.nodes[r].get("val", -1)) == 1] if True else []
        ok = False
        for r in g.all(kind="ReturnStmt"):
            if "val" in g.nodes[r] and g.cv(g.nodes[r]["val"]) == 1:
                lens = [dd["d"] for _, dd in rl.var_init_from(g, lambda j: rl.is_call(g, j, ("_mi_strlen", "strlen")))]
                def len_eq(e, pol):
                    if not isinstance(e, int):
                        return False
                    c = rl.norm_cmp(g, e, pol)
                    return c is not None and c[0] == "==" and (rl.var_of(g, c[1]) in lens or rl.var_of(g, c[2]) in lens)
                def content_eq(e, pol):
                    if not isinstance(e, int):
                        return False
                    c = rl.norm_cmp(g, e, pol)
                    return c is not None and c[0] == "==" and g.cv(c[2]) == 0 and rl.is_call(g, g.strip(c[1]), ("_mi_strnicmp", "strncmp", "memcmp"))
                ok = g.cfg.guarded(g.cfg.pt(r), len_eq) is None and g.cfg.guarded(g.cfg.pt(r), content_eq) is None
        ctx.check(R, ok, g.where(), "mi_option_is_keyword answers true only when a token has the same length AND the same content as the value", key="C20.R5b:is_keyword")
    ctx.floor(R, 2)


def r6(ctx, prog):
    R = ctx.rule("C20.R6", "mi_option_get/set/… check the index against [0, _mi_option_last) before indexing options[]")
    last = prog.const("_mi_option_last")
    n = 0
    for f in prog.fns.values():
        if os.path.basename(f.file) != "options.c":
            continue
        for s in f.all(kind="ArraySubscriptExpr"):
            b = f.strip(f.nodes[s]["c"][0])
            if not (f.nodes[b]["k"] == "DeclRefExpr" and f.nodes[b]["n"] == "options"):
                continue
            idx = f.nodes[s]["c"][1]
            d = rl.var_of(f, idx)
            n += 1
            if f.cv(idx) is not None:
                ctx.check(R, 0 <= f.cv(idx) < last, f.where(s), "constant index %d" % f.cv(idx), key="C20.R6:%s" % f.name)
                continue
            if d is None:
                ctx.fail(R, f.where(s), "index %s is not a plain variable" % f.text(idx), key="C20.R6:%s" % f.name)
                continue
            def upper(e, pol):
                if not isinstance(e, int):
                    return False
                c = rl.oriented(f, e, pol, rl.is_local(f, d), rl.is_const(f))
                return c is not None and ((c[0] == "<" and f.cv(c[2]) <= last) or (c[0] == "<=" and f.cv(c[2]) < last))
            w = f.cfg.guarded(f.cfg.pt(s), upper)
            ok = w is None
            if not ok and d in f.pids and f.name.startswith("_mi_"):
                # internal accessor without a check: every call site in the library must pass an in-range constant
                k = f.pids.index(d)
                sites = [(g, c) for g in prog.fns.values() for c in g.calls(f.name)]
                ok = bool(sites) and all(g.cv(rl.arg(g, c, k)) is not None and 0 <= g.cv(rl.arg(g, c, k)) < last for g, c in sites)
                w = [g.where(c) for g, c in sites if g.cv(rl.arg(g, c, k)) is None]
            if not ok:
                # a loop over all options: for (i = 0; i < _mi_option_last; i++)
                st = bounds.analyse(f)
                ub, _ = bounds.ub_at(f, st, s, idx)
                ok = ub is not None and ub < last
            ctx.check(R, ok, f.where(s), "options[%s] is reached only with %s < _mi_option_last" % (f.text(idx), f.text(idx)), key="C20.R6:%s" % f.name, witness=w)
    ctx.floor(R, 4)


def r7(ctx, prog):
    R = ctx.rule("C20.R7", "JSON output stays terminated: the caller's buffer starts out terminated, and in mi_heap_buf_print every path that stored a character "
                           "reaches a terminator store (buf[used] = 0, or buf[size-1] = 0 through mi_heap_buf_expand) before the function returns — also when the buffer is full")
    if not prog.has("mi_heap_buf_print"):
        ctx.broke("C20.R7: mi_heap_buf_print not found")
        return
    f = prog.fn("mi_heap_buf_print")
    cfg = f.cfg

    def buf_store(h, e):
        """(index node, value node) when e is `X->buf[idx] = v` / `X.buf[idx] = v` (or through a char* parameter), else None"""
        n = h.nodes[e]
        if n["k"] != "BinaryOperator" or n["op"] != "=":
            return None
        l = h.strip(n["c"][0])
        if h.nodes[l]["k"] != "ArraySubscriptExpr":
            return None
        base = h.nodes[l]["c"][0]
        if not (h.mentions_field(base, "buf") or (rl.var_of(h, base) in h.pids and "char" in h.nodes[h.strip(base)].get("t", ""))):
            return None
        return h.nodes[l]["c"][1], n["c"][1]
    content = [e for e in f.all(kind="BinaryOperator") if buf_store(f, e) and f.cv(buf_store(f, e)[1]) != 0]
    term = [e for e in f.all(kind="BinaryOperator") if buf_store(f, e) and f.cv(buf_store(f, e)[1]) == 0]
    # the refill routine terminates the (full) buffer at its last byte on every path on which there is a buffer
    exp_ok = False
    if prog.has("mi_heap_buf_expand"):
        g = prog.fn("mi_heap_buf_expand")
        last = [e for e in g.all(kind="BinaryOperator") if buf_store(g, e) and g.cv(buf_store(g, e)[1]) == 0 and
                rl.canon(g, buf_store(g, e)[0]).replace(" ", "") in ("($0->size-1)",)]
        nobuf = lambda e, pol: rl.fact_null(g, e, pol, lambda j: g.nodes[j]["k"] == "DeclRefExpr" and g.nodes[j]["d"] == g.param_id(0)) or \
            rl.fact_null(g, e, pol, rl.is_field(g, "buf")) or rl.rel(g, e, pol, rl.is_field(g, "size"), rl.is_const(g, lambda v: v == 0)) in ("==", "<=")
        exp_ok = bool(last) and g.cfg.must_pass([g.cfg.entry], g.cfg.exit_points(), lambda e: e in last, edge_ok=rl.no_contradiction(g, lambda e, pol: nobuf(e, pol))) is None
        ctx.check(R, exp_ok, g.where(), "mi_heap_buf_expand stores buf[size-1] = 0 on every path that has a buffer, before it decides whether it can grow", key="C20.R7:expand")
    ends = lambda e: e in term or (exp_ok and rl.is_call(f, e, "mi_heap_buf_expand"))
    if not content or not term:
        ctx.broke("C20.R7: content / terminator stores of mi_heap_buf_print not found")
        return
    for c in content:
        w = cfg.must_pass([cfg.after(c)], cfg.exit_points(), ends)
        ctx.check(R, w is None, f.where(c), "every path from a stored character to the return passes a terminator store (the full-buffer exit included)", key="C20.R7:print", witness=w)
    for t in term:
        idx = buf_store(f, t)[0]
        ctx.check(R, f.mentions_field(idx, "used") or f.mentions_field(idx, "size"), f.where(t), "the terminator goes to buf[used] (or buf[size-1])", key="C20.R7:where")
    j = prog.fn("mi_stats_get_json")
    ob = next((j.param_id(k) for k, p_ in enumerate(j.d["params"]) if "char" in p_["t"] and "*" in p_["t"]), None)
    init = [e for e in j.all() if (rl.is_call(j, e, ("_mi_memzero", "memset", "_mi_memzero_aligned")) and rl.var_of(j, j.nodes[e]["args"][0]) == ob) or
            (buf_store(j, e) and rl.var_of(j, j.nodes[j.strip(j.nodes[e]["c"][0])]["c"][0]) == ob and j.cv(buf_store(j, e)[1]) == 0 and j.cv(buf_store(j, e)[0]) == 0)]
    uses = [a for a, l, rhs, op in j.stores() if rhs is not None and rl.var_of(j, rhs) == ob and op == "="] + \
           [n["i"] for n in j.nodes if n["k"] == "DeclStmt" and any("init" in dd and j.mentions_decl(dd["init"], ob) for dd in n["decls"])]
    ok = bool(init) and bool(uses) and all(rl.precedes(j, lambda e: e in init, u) is None for u in uses)
    ctx.check(R, ok, j.where(), "the caller's buffer is cleared (or at least starts with a terminator) before it becomes the output buffer", key="C20.R7:init")
    ctx.floor(R, 4)


def run(ctx):
    ctx.explanation = ("Static decision of C20's code-shaped necessary conditions: folded option table, constant size arguments of all bounded-writer call sites "
                       "against the destination arrays, upper-bound dataflow for every fixed-array subscript in options/stats/libc code, cursor-vs-limit dominance "
                       "in the primitive writers, saturation and default-preservation in the parser, whole-token keyword matching, index checks before options[]. "
                       "NOT decided: functional correctness of the parser for all strings; libc's strtol; the in-place digit reversal of mi_out_num.")
    for c in (["REL"] if ctx.tier == "quick" else ["REL", "SEC", "DBG"]):
        prog = ctx.prog(c)
        n0 = len(ctx.instances)
        r1(ctx, prog); r2(ctx, prog); r3(ctx, prog); r4(ctx, prog); r5(ctx, prog); r5b(ctx, prog); r6(ctx, prog); r7(ctx, prog)
        if c != "REL":
            for i in ctx.instances[n0:]:
                i["site"] += " [%s]" % c
                if not i["ok"]:
                    i["key"] += ":" + c
