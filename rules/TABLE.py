"""Claims table for MANIFEST.json (bin/mkmanifest)."""
TB = "Trusted: clang 14 front end/constant folder/CFG builder, the extractor (engine/mifacts.cc), the Python path and dataflow algorithms, the frozen rule tables (each exception one named symbol with a reason). "
CLAUSE = ("Decides, for all inputs/schedules at once, the listed code-shaped NECESSARY conditions of the property on every CFG path of the "
          "functions that implement it; it does not decide the behavioural whole (see the 'Not decided' paragraph of the DESIGN section). ")
CLAIMS = {
 "C11": dict(level="other", technique="static analysis: def-use writer/reader agreement + must-pass-through over CFG and call graph",
             text=CLAUSE + "C11: writer/reader agreement on memid.mem.os.{base,size}, no dropped pure size computation, provenance of the size reaching munmap, "
                  "must-pass release chain segment->arena->OS->munmap, thread-data cache. RSS across repetitions is a run-time quantity and is not decided.",
             note=TB + "Assumes munmap(2) releases what it is given."),
}
NOT_APPLICABLE = {}
NOTES = ("All checks are static: they parse /repo's current sources with the real build's flags on every run and never execute mimalloc. "
         "exit 2 (ANALYSIS-BROKEN) means an anchor vanished or a rule matched fewer instances than confirmed by hand; it is neither a pass nor a violation. "
         "Genuine defects found on the pinned tree are recorded in /verif/known_findings.json (fixed: entries for the nine 'fix:' commits; one known finding F9).")
