"""Claims table for MANIFEST.json (bin/mkmanifest)."""
TB = ("Trusted: clang 14 front end/constant folder/CFG builder, the extractor (engine/mifacts.cc), the Python path and dataflow algorithms (lib/), "
      "the frozen rule tables in rules/ (each exception one named symbol with a reason) and the reference function list fixtures/reference_functions.json "
      "(new private helpers are virtually inlined; a vanished/re-typed reference anchor makes the run ANALYSIS-BROKEN, exit 2, not a verdict). ")
CLAUSE = ("Static analysis. Decides, for all inputs/schedules at once, the listed code-shaped NECESSARY conditions of the property on every CFG path of the "
          "functions that implement it (a violated condition breaks the behaviour); it does not decide the behavioural whole — see 'Not decided' in the DESIGN section. ")


def C(level, technique, decided, note=""):
    return dict(level=level, technique="static analysis: " + technique, text=CLAUSE + decided, note=TB + note)


CLAIMS = {

 "C01": C("other", "must-pass-through pairing, def-use and guarded-by over alloc/free/page/segment code + module ownership",
          "C01: pop/push pairing with the used counter, list conservation, free-list extension bounded by the reserve computed from the page's own area, page free only when all-free, "
          "span split/merge arithmetic and guards, byte units of slice back-pointers, flag-byte integrity, module-level ownership of bookkeeping fields. Also: page start and reported page size use one offset; heap migration moves every page queue; the commit/purge mask built for a slice range is exactly that range (all offsets/counts evaluated).",
          "Composition of these steps into `no overlap for every history` needs the inductive heap invariant and is not decided."),
 "C02": C("other", "atomic-protocol shape analysis over all CAS/RMW sites + field-effect analysis of the remote-free call graph",
          "C02: CAS-loop freshness at all retry loops, CAS result discipline (29 sites), effect separation of the cross-thread free (no owner-only page state touched), the "
          "DELAYED_FREEING bracket, owner-side ordering, a frozen memory-order floor table, RMW-only updates of the shared list words. Also: after the publishing CAS / the hand-off call the freeing thread touches neither block nor page.",
          "Linearizability / absence of double hand-out over interleavings is a schedule property and not decided (model-checking family)."),
 "C03": C("other", "linear-inequality proof + witness search + residue-exhaustive abstract interpretation + guarded-by",
          "C03: has_aligned set on every path returning an interior pointer; over-allocation >= size+alignment-1 (proved/refuted); form of poffset/adjust; every consumer un-aligns; "
          "flag-byte integrity; for all produced block sizes and all page-start residues the page start is 16- and block-size-aligned; huge-alignment plumbing.",
          "Trusts lib/absint.py transfer functions."),
 "C06": C("other", "sibling agreement over all (count,size) entry points + dominance of validation over allocation",
          "C06: 25 (count,size) entry points check the multiplication identically or forward the pair unchanged; the size ceiling dominates huge allocation; alignment validation dominates "
          "every allocation call; posix_memalign validates, allocates, then stores; errno conventions.",
          "`Fails only when the OS refuses` (liveness) is not decided."),
 "C08": C("other", "ordering (must-pass) and no-loss shape of the delayed-free consumer/producer + reachability of drains",
          "C08: re-arm ≺ collect ≺ local free(check_full) in the delayed consumer (never overriding NEVER), link read before free and re-push on refusal, exactly one publication per remote free, "
          "periodic and collect-time drains, the full-queue round trip, recount by the walked count.",
          "Boundedness of memory over time is not decided."),
 "C12": C("other", "result discipline of all indirect visitor calls + dominance + cursor pairing + table/arith checks",
          "C12: every queue walked with next saved before the callback, collect before inspect, visitor result honoured at all 6 sites, abandoned walk re-marks every fetched segment, "
          "free-map sizing against the bin table and index/bit split, block cursor arithmetic. Also: abandoned OS segments are appended at the tail while the cursor pops the head.",
          "Equality of the visited multiset with the live set for every history is not decided."),
 "C13": C("other", "orientation analysis of rounding (conservative vs liberal) + must-pass bracket of arena purges + def-use of masks",
          "C13 (second sentence only): purge rounds inwards / commit outwards at both levels with the right constant at every caller; purge mask ⊆ commit mask, cleared on commit; "
          "commit before use; arena purge bracketed by an in-use claim and scheduled before release; live huge blocks only reset. Also: a claimed arena range with uncommitted blocks is committed as a whole before use; the segment commit mask is extended only after the OS accepted the commit and is built exactly for the range.",
          "The first sentence (all guarantees under every option combination) is a run-time matrix and NOT decided by this technique."),
 "C14": C("other", "CAS observed-clear/freshness conditions in bitmap.c + roll-back region analysis + claim/free agreement",
          "C14: bits or-ed in only after observed clear, all failure edges of the multi-field claim pass the roll-back, conditional undo of the initial field, bounded retry, "
          "claim/free agree on count and index with a checked result, containment arithmetic, mask helper structure. Also: the free path's sanity checks accept every range that ends with the arena's last block (evaluated witnesses).",
          "Disjointness of concurrently returned ranges over interleavings is not decided."),
 "C16": C("proof", "interval abstract interpretation of the extracted source over partitions of the whole input domain (bisection on undecided cells)",
          "C16: ∀ size in [0, PTRDIFF_MAX] mi_bin is exactly the first produced bin >= size (HUGE above the medium maximum); bin/span tables; mi_good_size; mi_slice_bin8 on [0,512]; fast division "
          "= floor(n/d) for the table's divisors (all cells in the thorough tier); _mi_ptr_segment on (kS,(k+1)S]; slice index range; alignment helpers on boundary cells; unalign at full width; "
          "debug assertions of these functions cannot fail (thorough).",
          "Trusts lib/absint.py (interval transfer functions, builtin models); A4 above the medium maximum and A10 are sampled laws and say so; quick tier proves A7 on boundary cells only."),
 "C17": C("other", "presence/order/dominance analysis in the two hardened programs (MI_SECURE=4, MI_DEBUG=3)",
          "C17: double-free check before any store, padding check before the push / before the remote publication and before _mi_padding_shrink, report-and-cut of out-of-page links, "
          "who-may-decode page-keyed links, bounded remote walk, inverse structure of the pointer codec, canary/delta written and validated, detection paths return normally with EAGAIN/EFAULT. Also: the pre-filter of the double-free walk is definitely true for a NULL link.",
          "Detection of forged in-page values is excluded by the property itself."),
 "C19": C("other", "symbol-table check of the override unit's AST against an ABI oracle table + call-graph reachability",
          "C19: all 49 overriding symbols (22 aliases, 27 bodies incl. 20 operator new/delete forms) are defined, default-visible, forward to the stated mi_ function with the stated argument "
          "order; every target reaches this library's allocator and no libc allocator.",
          "What the dynamic linker binds at run time is not decided."),
 "C04": C("other", "interprocedural constant-flag flow + must-pass-through + symbolic range bounds",
          "C04: the constant zero flag reaches the zeroing primitive (or a verified zero-afterwards memzero over the usable size) from all 27 zero-family entry points on every returning path; "
          "the primitive zeroes block_size not the request; page zero-flag stores; the moving re-allocation zeroes [<= old usable, new usable).",
          "Assumes memory reported zero by the OS/arena is zero."),
 "C05": C("other", "must-pass-through / guarded-by over the realloc bodies + call-graph effects",
          "C05: copy length is exactly min(old usable, newsize); mi_free(p) only after newp != NULL, once, never before returning p/NULL; guards of the in-place return; alignment "
          "provenance of every return of the aligned re-allocation; mi_expand is effect-free; reallocf frees exactly on failure. Also: nothing writes into the new block after the copy (the tail zeroing starts inside the copied prefix).",
          "Byte equality of copied contents is a run-time fact and not decided."),
 "C07": C("other", "result-discipline over all call sites of a frozen fallible set + NULL-dominance + failure-edge must-pass",
          "C07: no OS/arena/segment/page failure result dropped (98 live call sites, exception table), no unchecked dereference of a fallible pointer result, commit state only after success "
          "and undone on failure, partially built objects released, retry-once-then-ENOMEM slow path, full commit mask for huge segments. Also: the retry after a forced collect repeats the original request; a claimed arena range is committed as a whole.",
          "Does not enumerate fault positions; kernel behaviour assumed as documented."),
 "C09": C("other", "ordering (must-pass), never-after-publication, guarded adoption over CFG + call graph",
          "C09: thread-exit path shape, abandon order, nothing touched after a segment is published as abandoned, reclaim only after the atomic un-abandon (and sub-process check), "
          "only heaps that may reclaim adopt pages, empty abandoned segments are released, forced-abandon pairing. Also: reclaim-on-free un-abandons only behind the sub-process test; draining never re-arms delayed free over NEVER; every page leaving the abandoned state decrements the segment's abandoned count exactly once.",
          "Exclusivity of adoption over interleavings is a schedule property and not decided."),
 "C10": C("other", "guarded-by / ordering / who-may-call over heap delete, absorb, destroy",
          "C10: delete absorbs only into a compatible backing heap else abandons, unlink and reset default before mi_free(heap) as last access; absorb order; destroy only on no_reclaim "
          "and only the heap's own pages; no foreign page enters a destroyable heap; ownership queries; _mi_page_abandon callers (known finding F9 listed).",
          "In-flight remote frees during delete are a schedule property and not decided."),
 "C11": C("other", "def-use writer/reader agreement + must-pass-through over CFG and call graph",
          "C11: writer/reader agreement on memid.mem.os.{base,size}, no dropped pure size computation on the release chain, provenance of the size reaching munmap, must-pass release chain "
          "segment->arena->OS->munmap, thread-data cache, forced-collect reachability. Also: memid provenance — the memid recorded in an object is, on every path, the one filled by the allocation call.",
          "Assumes munmap(2) releases what it is given; RSS over repetitions is a run-time quantity and not decided."),
 "C15": C("other", "guarded-by analysis of every hand-over site + DNF of the suitability predicate + def-use of trimming",
          "C15: a suitability test bound to the requesting heap's arena id guards every hand-over of spans/abandoned segments/arena blocks; no OS fallback or fresh arena for a bound request; "
          "cursor restriction; suitability predicate DNF; managed regions trimmed inwards; arena-incompatible heaps are not merged."),
 "C18": C("other", "edge-fact orientation agreement across sibling functions + reachability with constant arguments",
          "C18: the three purge drivers agree that a purge is skipped exactly while the expiry lies in the future; force=false purge attempts are reached from page free, page alloc, arena free and "
          "normal collect; delay<0 / ==0 / >0 regimes; decommit-or-reset selection. Also: segment timer invariant — purge_expire = 0 only together with an emptied purge mask.",
          "Wall-clock timing is not decided."),
 "C20": C("other", "table checks on folded initialisers + upper-bound dataflow (abstract interpretation) + cursor/limit dominance",
          "C20: option table rows match their enumerators and fit the lookup buffer; every bounded-writer call has a constant size <= its array; every fixed-array subscript in options/stats/libc "
          "code has a proven upper bound; primitive writers store only under p<end; parser saturates and leaves defaults on malformed input; keywords matched by whole-token equality; "
          "options[] indexed only after a range check. Also: JSON output into a caller buffer stays terminated on every exit of the print routine.",
          "libc's strtol/getenv trusted; mi_out_num's in-place digit reversal not decided."),
}
NOT_APPLICABLE = {}
NOTES = ("All checks are static: they parse /repo's current sources with the real build's flags on every run (cmake+ninja compdb -> libTooling extractor) and never execute mimalloc. "
         "exit 2 (ANALYSIS-BROKEN) means an anchor vanished or a rule matched fewer instances than confirmed by hand; it is neither a pass nor a violation. "
         "Genuine defects found on the pinned tree are recorded in /verif/known_findings.json (fixed: entries for the nine 'fix:' commits; one known finding F9). "
         "quick = release configuration; thorough = release + MI_SECURE=4 + MI_DEBUG=3 configurations (cross-configuration agreement).")
