"""Claims table for MANIFEST.json (bin/mkmanifest)."""
TB = ("Trusted: clang 14 front end/constant folder/CFG builder, the extractor (engine/mifacts.cc), the Python path and dataflow algorithms (lib/), "
      "the frozen rule tables in rules/ (each exception one named symbol with a reason). ")
CLAUSE = ("Static analysis. Decides, for all inputs/schedules at once, the listed code-shaped NECESSARY conditions of the property on every CFG path of the "
          "functions that implement it (a violated condition breaks the behaviour); it does not decide the behavioural whole — see 'Not decided' in the DESIGN section. ")


def C(level, technique, decided, note=""):
    return dict(level=level, technique="static analysis: " + technique, text=CLAUSE + decided, note=TB + note)


CLAIMS = {
 "C04": C("other", "interprocedural constant-flag flow + must-pass-through + symbolic range bounds",
          "C04: the constant zero flag reaches the zeroing primitive (or a verified zero-afterwards memzero over the usable size) from all 27 zero-family entry points on every returning path; "
          "the primitive zeroes block_size not the request; page zero-flag stores; the moving re-allocation zeroes [<= old usable, new usable).",
          "Assumes memory reported zero by the OS/arena is zero."),
 "C05": C("other", "must-pass-through / guarded-by over the realloc bodies + call-graph effects",
          "C05: copy length is exactly min(old usable, newsize); mi_free(p) only after newp != NULL, once, never before returning p/NULL; guards of the in-place return; alignment "
          "provenance of every return of the aligned re-allocation; mi_expand is effect-free; reallocf frees exactly on failure.",
          "Byte equality of copied contents is a run-time fact and not decided."),
 "C07": C("other", "result-discipline over all call sites of a frozen fallible set + NULL-dominance + failure-edge must-pass",
          "C07: no OS/arena/segment/page failure result dropped (98 live call sites, exception table), no unchecked dereference of a fallible pointer result, commit state only after success "
          "and undone on failure, partially built objects released, retry-once-then-ENOMEM slow path, full commit mask for huge segments.",
          "Does not enumerate fault positions; kernel behaviour assumed as documented."),
 "C09": C("other", "ordering (must-pass), never-after-publication, guarded adoption over CFG + call graph",
          "C09: thread-exit path shape, abandon order, nothing touched after a segment is published as abandoned, reclaim only after the atomic un-abandon (and sub-process check), "
          "only heaps that may reclaim adopt pages, empty abandoned segments are released, forced-abandon pairing.",
          "Exclusivity of adoption over interleavings is a schedule property and not decided."),
 "C10": C("other", "guarded-by / ordering / who-may-call over heap delete, absorb, destroy",
          "C10: delete absorbs only into a compatible backing heap else abandons, unlink and reset default before mi_free(heap) as last access; absorb order; destroy only on no_reclaim "
          "and only the heap's own pages; no foreign page enters a destroyable heap; ownership queries; _mi_page_abandon callers (known finding F9 listed).",
          "In-flight remote frees during delete are a schedule property and not decided."),
 "C11": C("other", "def-use writer/reader agreement + must-pass-through over CFG and call graph",
          "C11: writer/reader agreement on memid.mem.os.{base,size}, no dropped pure size computation on the release chain, provenance of the size reaching munmap, must-pass release chain "
          "segment->arena->OS->munmap, thread-data cache, forced-collect reachability.",
          "Assumes munmap(2) releases what it is given; RSS over repetitions is a run-time quantity and not decided."),
 "C15": C("other", "guarded-by analysis of every hand-over site + DNF of the suitability predicate + def-use of trimming",
          "C15: a suitability test bound to the requesting heap's arena id guards every hand-over of spans/abandoned segments/arena blocks; no OS fallback or fresh arena for a bound request; "
          "cursor restriction; suitability predicate DNF; managed regions trimmed inwards; arena-incompatible heaps are not merged."),
 "C18": C("other", "edge-fact orientation agreement across sibling functions + reachability with constant arguments",
          "C18: the three purge drivers agree that a purge is skipped exactly while the expiry lies in the future; force=false purge attempts are reached from page free, page alloc, arena free and "
          "normal collect; delay<0 / ==0 / >0 regimes; decommit-or-reset selection.",
          "Wall-clock timing is not decided."),
 "C20": C("other", "table checks on folded initialisers + upper-bound dataflow (abstract interpretation) + cursor/limit dominance",
          "C20: option table rows match their enumerators and fit the lookup buffer; every bounded-writer call has a constant size <= its array; every fixed-array subscript in options/stats/libc "
          "code has a proven upper bound; primitive writers store only under p<end; parser saturates and leaves defaults on malformed input; keywords matched by whole-token equality; "
          "options[] indexed only after a range check.",
          "libc's strtol/getenv trusted; mi_out_num's in-place digit reversal not decided."),
}
NOT_APPLICABLE = {}
NOTES = ("All checks are static: they parse /repo's current sources with the real build's flags on every run (cmake+ninja compdb -> libTooling extractor) and never execute mimalloc. "
         "exit 2 (ANALYSIS-BROKEN) means an anchor vanished or a rule matched fewer instances than confirmed by hand; it is neither a pass nor a violation. "
         "Genuine defects found on the pinned tree are recorded in /verif/known_findings.json (fixed: entries for the nine 'fix:' commits; one known finding F9). "
         "quick = release configuration; thorough = release + MI_SECURE=4 + MI_DEBUG=3 configurations (cross-configuration agreement).")
