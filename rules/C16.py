"""C16 — size-class and address arithmetic is sound for every input (DESIGN §4 C16). Level: proof (abstract interpretation, P8).

Each obligation is a ∀-statement over the stated input domain, proved on the *extracted source* of the functions by interval abstract
interpretation over a partition of the domain (undecided cells are bisected; an exhausted budget is an analysis failure). A refuted
obligation comes with a concrete witness input computed by the analyser's own evaluator. Table obligations are checked on clang's folded
initialisers. The compiled code is never run.
"""
import rl
import absint
from absint import AV, Based, Interp, prove, Split, Unsupported, AssertionMayFail
from facts import AnalysisBroken

LEVEL = "proof"


def bin_table(prog):
    he = prog.globals.get("_mi_heap_empty", {}).get("val")
    if not isinstance(he, dict) or "pages" not in he:
        raise AnalysisBroken("C16: folded initialiser of _mi_heap_empty not available")
    return [p.get("block_size") if isinstance(p, dict) else None for p in he["pages"]]


def used_bins(prog, it, T, kmax_size):
    """bins mi_bin actually produces: the fixed points mi_bin(T[k]) == k (with 16-byte MI_MAX_ALIGN_SIZE the odd word bins 24,40,56 are skipped by design)"""
    huge = prog.const("MI_BIN_HUGE")
    out = []
    for k in range(1, huge):
        if T[k] > kmax_size:
            break
        try:
            r = it.call("mi_bin", [AV(T[k])])
        except (Split, Unsupported, AssertionMayFail) as e:
            raise AnalysisBroken("C16: cannot evaluate mi_bin(%d): %s" % (T[k], e))
        if r.const() == k:
            out.append(k)
    return out


def run_ob(ctx, R, site, what, key, res, extra=""):
    ctx.cells += res.cells
    if res.violation is not None:
        ctx.fail(R, site, "%s — REFUTED at input %s: %s" % (what, res.violation[0], res.violation[1]), key=key, witness=list(res.violation[0]))
    elif res.unknown is not None:
        ctx.broke("%s: %s: not decided: %s" % (R, what, res.unknown))
    else:
        big = ", ".join("%s" % (c,) for w, c in res.largest[:2])
        ctx.ok(R, site, "%s — proved on %d cells (largest: %s)%s" % (what, res.cells, big, extra))


def a1(ctx, prog, pad):
    R = ctx.rule("C16.A1", "∀ size: mi_bin(size) is exactly the first bin whose block size is >= size (so it is in range, monotone and wastes the least), and MI_BIN_HUGE above MI_MEDIUM_OBJ_SIZE_MAX up to PTRDIFF_MAX")
    T = bin_table(prog)
    huge = prog.const("MI_BIN_HUGE")
    med = prog.const("MI_MEDIUM_OBJ_SIZE_MAX")
    f = prog.fn("mi_bin")
    it = Interp(prog)
    U = used_bins(prog, it, T, med)
    kmax = U[-1]
    ctx.check(R, U[0] == 1 and T[U[-1]] == med and all(T[k] % 16 == 0 for k in U if T[k] >= 16), f.where(),
              "bins produced by mi_bin (fixed points): %d of them, first 1, last %d (= MI_MEDIUM_OBJ_SIZE_MAX); every produced size >= 16 is a multiple of 16 (natural alignment); skipped: %s"
              % (len(U), T[kmax], [T[k] for k in range(1, kmax) if k not in U]), key="C16.A1:used")
    n = 0
    for j, k in enumerate(U):
        lo = 0 if j == 0 else T[U[j - 1]] + 1
        hi = T[k]
        res = prove(lambda cell: it.call("mi_bin", [AV(cell[0][0], cell[0][1])]), [((lo, hi),)],
                    lambda cell, r, k=k: True if (r.lo == r.hi == k) else (False if (r.hi < k or r.lo > k) else None), budget=4000)
        n += 1
        run_ob(ctx, R, f.where(), "size ∈ [%d,%d] ↦ bin %d (block size %d)" % (lo, hi, k, T[k]), "C16.A1:bin:%d" % k, res)
    ptrdiff = prog.const("PTRDIFF_MAX")
    res = prove(lambda cell: it.call("mi_bin", [AV(cell[0][0], cell[0][1])]), [((med + 1, ptrdiff),)],
                lambda cell, r: True if (r.lo == r.hi == huge) else (False if (r.hi < huge or r.lo > huge) else None), budget=4000)
    run_ob(ctx, R, f.where(), "size ∈ [%d, PTRDIFF_MAX] ↦ MI_BIN_HUGE (%d)" % (med + 1, huge), "C16.A1:huge", res)
    ctx.note("C16.A1: bins %d..%d exist in the table but are not produced by mi_bin (reported, not judged)" % (kmax + 1, huge - 1))
    ctx.floor(R, 38)


def a3(ctx, prog):
    R = ctx.rule("C16.A3", "bin table: MI_BIN_FULL+1 entries, strictly increasing block sizes, multiples of the word size, step ratio <= 1.25 above 8 words, sentinels for huge/full beyond the medium maximum")
    T = bin_table(prog)
    huge, full = prog.const("MI_BIN_HUGE"), prog.const("MI_BIN_FULL")
    med = prog.const("MI_MEDIUM_OBJ_SIZE_MAX")
    site = "src/init.c _mi_heap_empty.pages[]"
    ctx.check(R, len(T) == full + 1 and None not in T, site, "%d entries (MI_BIN_FULL+1 = %d)" % (len(T), full + 1), key="C16.A3:len")
    inc = all(T[k] < T[k + 1] for k in range(1, huge - 1))
    ctx.check(R, inc, site, "block sizes strictly increase over bins 1..%d" % (huge - 1), key="C16.A3:increasing")
    ctx.check(R, all(t % 8 == 0 for t in T), site, "every block size is a multiple of 8", key="C16.A3:words")
    ok = all(T[k + 1] * 4 <= T[k] * 5 for k in range(8, huge - 1))
    ctx.check(R, ok, site, "consecutive bins above 8 words differ by at most 25%", key="C16.A3:ratio")
    ctx.check(R, T[huge] > med and T[full] > med and T[huge] != T[full], site, "huge (%d) and full (%d) sentinels exceed MI_MEDIUM_OBJ_SIZE_MAX and differ" % (T[huge], T[full]), key="C16.A3:sentinels")
    ctx.check(R, T[0] == T[1] == 8, site, "bin 0 and bin 1 are the one-word bins", key="C16.A3:first")
    direct = prog.const("MI_PAGES_DIRECT")
    small_w = prog.const("MI_SMALL_WSIZE_MAX")
    he = prog.globals["_mi_heap_empty"]["val"]
    ctx.check(R, len(he.get("pages_free_direct", [])) == direct and direct >= small_w + 1, site, "pages_free_direct has MI_PAGES_DIRECT=%d entries (>= MI_SMALL_WSIZE_MAX+1)" % direct, key="C16.A3:direct")
    # natural alignment (C03.R5): sizes >= 16 are multiples of 16 up to where alignment is guaranteed... bins of 8-byte granularity exist only below 16? (24, 40, 56 are not multiples of 16)
    ctx.floor(R, 7)


def a2(ctx, prog):
    R = ctx.rule("C16.A2", "internal waste is bounded: for every size > 64 the chosen block wastes at most 25% (consequence of A1 and the table steps)")
    T = bin_table(prog)
    huge = prog.const("MI_BIN_HUGE")
    med = prog.const("MI_MEDIUM_OBJ_SIZE_MAX")
    worst = (0, 0, 0)
    ok = True
    U = used_bins(prog, Interp(prog), T, med)
    for j in range(1, len(U)):
        k = U[j]
        if T[U[j - 1]] + 1 <= 64:
            continue
        size = T[U[j - 1]] + 1     # the worst case of the cell, by A1
        waste = T[k] - size
        if waste * 4 > T[k]:
            ok = False
        if waste * 1000 // T[k] > worst[0]:
            worst = (waste * 1000 // T[k], size, T[k])
    ctx.check(R, ok, "src/init.c _mi_heap_empty.pages[]", "worst waste %.1f%% (size %d in a %d-byte block)" % (worst[0] / 10.0, worst[1], worst[2]), key="C16.A2:waste")
    ctx.floor(R, 1)


def a4(ctx, prog):
    R = ctx.rule("C16.A4", "∀ n <= MI_MEDIUM_OBJ_SIZE_MAX: mi_good_size(n) is the block size of mi_bin(n) (>= n, idempotent); above, it is n rounded up to the OS page size")
    T = bin_table(prog)
    huge = prog.const("MI_BIN_HUGE")
    med = prog.const("MI_MEDIUM_OBJ_SIZE_MAX")
    pad = prog.const("MI_PADDING_SIZE")
    f = prog.fn("mi_good_size")
    it = Interp(prog)
    U = used_bins(prog, it, T, med)
    for j, k in enumerate(U):
        lo = 0 if j == 0 else T[U[j - 1]] + 1
        hi = T[k]
        lo2, hi2 = max(0, lo - pad), hi - pad
        if hi2 < lo2:
            continue
        res = prove(lambda cell: it.call("mi_good_size", [AV(cell[0][0], cell[0][1])]), [((lo2, hi2),)],
                    lambda cell, r, k=k: True if (r.lo == r.hi == T[k]) else (False if (r.hi < T[k] or r.lo > T[k]) else None), budget=4000)
        run_ob(ctx, R, f.where(), "n ∈ [%d,%d] ↦ %d (>= n; fixed point: %d ↦ %d)" % (lo2, hi2, T[k], T[k] - pad, T[k]), "C16.A4:bin:%d" % k, res)
    # above the medium maximum: structure + proof for the three page sizes on boundary cells and one unbounded cell each for "result >= n"
    for P in (4096, 16384, 65536):
        it2 = Interp(prog)
        it2.opaque["_mi_os_page_size"] = lambda args, P=P: AV(P)
        def post(cell, r):
            lo, hi = cell[0]
            # r >= n for all n in the cell, r - n < P, r multiple of P : decided when the cell lies within one page interval
            if r.lo == r.hi:
                v = r.lo
                return True if (v >= hi + pad and v - (lo + pad) < P and v % P == 0) else (False if (v < lo + pad) else None)
            return None
        base = ((med + pad) // P + 1) * P
        cells = []
        for j in (0, 1, 2, 1000, (1 << 40) // P):
            a = base + j * P
            cells.append(((a - pad + 1 - P if j else med + 1, a - pad),))
        res = prove(lambda cell: it2.call("mi_good_size", [AV(cell[0][0], cell[0][1])]), cells, post, budget=2000)
        run_ob(ctx, R, f.where(), "page size %d: n in (kP-P, kP] ↦ kP on boundary pages k (relational law checked on sample pages; not a ∀ proof)" % P, "C16.A4:page:%d" % P, res)
    # ∀ n > MI_MEDIUM_OBJ_SIZE_MAX (n = B·2^17 + v, B >= 1): mi_good_size(n) = n + pad rounded up to the page size
    K = 17
    assert (1 << K) > med
    for P in (4096, 16384, 65536):
        it3 = Interp(prog)
        it3.opaque["_mi_os_page_size"] = lambda args, P=P: AV(P)
        def ev(cell):
            x = Based(K, AV(cell[0][0], cell[0][1], 64, True))
            return it3.call("mi_good_size", [x])
        def post(cell, r, P=P):
            if not isinstance(r, Based) or r.dbase != 0 or r.off.lo != r.off.hi:
                return None
            lo, hi = cell[0]
            v = r.off.lo
            return True if (v % P == 0 and v >= hi + pad and v - (lo + pad) < P) else (False if v < lo + pad else None)
        cells = [((j * P + 1 - pad if j * P + 1 - pad >= 0 else 0, (j + 1) * P - pad),) for j in range(0, (1 << K) // P)] + [((0, 0),)] if pad == 0 else \
                [((max(0, j * P + 1 - pad), (j + 1) * P - pad),) for j in range(0, (1 << K) // P)]
        res = prove(ev, cells, post, budget=20000)
        run_ob(ctx, R, f.where(), "∀ n = B·2^%d + v (B >= 1, so n > MI_MEDIUM_OBJ_SIZE_MAX), page size %d: mi_good_size(n) is the multiple of the page size at or above n+pad" % (K, P), "C16.A4:forall:%d" % P, res)
    g = prog.fn("mi_good_size")
    vals = [v for r in g.all(kind="ReturnStmt") if "val" in g.nodes[r] for v in rl.values_of(g, g.nodes[r]["val"])]   # through a result variable too
    ok = any(rl.is_call(g, v, "_mi_align_up") for v in vals) and any(g.mentions_call(v, "mi_bin") and g.mentions_call(v, "_mi_bin_size") for v in vals)
    ctx.check(R, ok, g.where(), "mi_good_size = _mi_bin_size(mi_bin(size+pad)) or _mi_align_up(size+pad, page) — the same bin function and table as the allocator", key="C16.A4:shape")
    for user in ("mi_page_queue", "mi_find_free_page", "mi_heap_page_queue_of"):
        if prog.has(user):
            u = prog.fn(user)
            ctx.check(R, any(True for _ in u.calls(("mi_bin", "_mi_bin", "mi_page_bin"))) or any(True for _ in u.calls("mi_page_queue")), u.where(), "%s selects queues with the same mi_bin" % user, key="C16.A4:sibling:%s" % user)
    ctx.floor(R, 38)


def a5(ctx, prog):
    R = ctx.rule("C16.A5", "direct small-page table: for every produced small bin the index range written by mi_heap_queue_first_update is exactly {w : mi_bin(8w) = bin}, "
                           "and the lookup indexes it with the same word size (finite: all 129 word sizes evaluated with the analyser's evaluator)")
    T = bin_table(prog)
    small = prog.const("MI_SMALL_SIZE_MAX")
    direct = prog.const("MI_PAGES_DIRECT")
    it = Interp(prog)
    f = prog.fn("mi_heap_queue_first_update")
    # structure of the start-slot search (the loop is modelled, so its shape is checked first); variables are identified by
    # their role (what they are initialised from / how they are stepped), never by name
    counted = {L["loop"] for L in rl.counted_loops(f)}
    loops = [L["node"] for L in f.loops() if L["node"] not in counted]
    idxs = [dd["d"] for _, dd in rl.var_init_from(f, lambda j: rl.is_call(f, j, "_mi_wsize_from_size"))]
    bins = [dd["d"] for _, dd in rl.var_init_from(f, lambda j: rl.is_call(f, j, "mi_bin"))]
    ok = len(loops) == 1 and len(idxs) == 1 and len(bins) == 1
    pm = {d: "$%d" % k for k, d in enumerate(f.pids)}
    prev_d = None
    if ok:
        inbody = set(f.walk(f.nodes[loops[0]]["body"]))
        body = [(a, lhs) for a, lhs, kind, opnd in f.updates() if a in inbody and kind == "sub" and opnd == 1]
        ok = len(body) == 1 and rl.var_of(f, body[0][1]) is not None
    if ok:
        prev_d = rl.var_of(f, body[0][1])
        pm[prev_d], pm[idxs[0]], pm[bins[0]] = "#prev", "#idx", "#bin"
        cs = rl.conjuncts(f, f.nodes[loops[0]]["cond"])
        same_bin = [c for c in cs if rl.rel(f, c, True, rl.is_local(f, bins[0]), lambda j: rl.canon(f, j, pm) == "mi_bin(#prev->block_size)") == "=="]
        above0 = [c for c in cs if rl.rel(f, c, True, rl.is_local(f, prev_d), lambda j: rl.canon(f, j, pm).replace(" ", "") == "$0->pages") == ">"]
        ok = len(cs) == 2 and len(same_bin) == 1 and len(above0) == 1
    ctx.check(R, ok, f.where(), "start-slot search: while (bin == mi_bin(prev->block_size) && prev > &heap->pages[0]) prev--", key="C16.A5:loop")
    fl = [L for L in rl.counted_loops(f) if len(idxs) == 1 and rl.var_of(f, L["bound"]) == idxs[0]]
    okf = len(fl) == 1 and fl[0]["op"] == "<=" and fl[0]["first"] is not None and rl.var_of(f, fl[0]["first"]) is not None
    sdefs = []
    if okf:
        sd = rl.var_of(f, fl[0]["first"])
        for a, rhs, op in f.var_defs(sd):
            if rhs is None:
                continue
            j = f.strip(rhs)
            if f.nodes[j]["k"] == "ConditionalOperator":     # the clamp written as a minimum: both arms are possible values
                sdefs += [rl.canon(f, f.nodes[j]["then"], pm).replace(" ", ""), rl.canon(f, f.nodes[j]["else"], pm).replace(" ", "")]
            else:
                sdefs.append(rl.canon(f, rhs, pm).replace(" ", ""))
    ctx.check(R, sorted(set(sdefs)) == sorted(["0", "(1+_mi_wsize_from_size(#prev->block_size))", "#idx"]), f.where(), "start ∈ {0, 1 + wsize(prev->block_size), idx}: %s" % sdefs, key="C16.A5:start")
    ctx.check(R, bool(okf), f.where(), "the fill loop covers start..idx inclusive", key="C16.A5:fill")
    U = used_bins(prog, it, T, small)
    wbin = {}
    for w in range(0, direct):
        r = it.call("mi_bin", [AV(8 * w)])
        wbin[w] = r.const()
    ctx.cells += direct
    def wsize(n):
        return it.call("_mi_wsize_from_size", [AV(n)]).const()
    for k in U:
        size = T[k]
        idx = wsize(size)
        if idx <= 1:
            start = 0
        else:
            b = it.call("mi_bin", [AV(size)]).const()
            j = k - 1
            while b == it.call("mi_bin", [AV(T[j])]).const() and j > 0:
                j -= 1
            start = 1 + wsize(T[j])
            if start > idx:
                start = idx
        want = sorted(w for w in range(direct) if wbin[w] == k)
        got = list(range(start, idx + 1))
        ctx.check(R, got == want and idx < direct, f.where(), "bin %d (%d bytes): slots written %d..%d = {w : mi_bin(8w) = %d} = %s" % (k, size, start, idx, k, "%d..%d" % (want[0], want[-1]) if want else "∅"),
                  key="C16.A5:bin:%d" % k)
    g = prog.fn("_mi_heap_get_free_small_page")
    ok = any(rl.is_call(g, g.strip(dd["init"]), "_mi_wsize_from_size") for _, dd in rl.local_decl(g, lambda dd: "init" in dd))
    ctx.check(R, ok, g.where(), "the lookup indexes pages_free_direct with _mi_wsize_from_size(size)", key="C16.A5:lookup")
    mb = prog.fn("mi_bin")
    uses = [r for r in mb.refs(mb.param_id(0))]
    ok = len(uses) == 1 and rl.is_call(mb, mb.up(uses[0]) if mb.up(uses[0]) is not None else uses[0], "_mi_wsize_from_size")
    ctx.check(R, ok, mb.where(), "mi_bin depends on its argument only through _mi_wsize_from_size(size) (so the table can be keyed by word size)", key="C16.A5:wsize_only")
    ctx.floor(R, 20)


def a6(ctx, prog):
    R = ctx.rule("C16.A6", "∀ slice_count ∈ [0, MI_SLICES_PER_SEGMENT]: mi_slice_bin8 returns the first span queue whose slice_count is >= the request, never beyond MI_SEGMENT_BIN_MAX")
    te = prog.globals.get("tld_empty", {}).get("val")
    if not isinstance(te, dict):
        raise AnalysisBroken("C16.A6: folded initialiser of tld_empty not available")
    S = [s.get("slice_count") for s in te["segments"]["spans"]]
    binmax = prog.const("MI_SEGMENT_BIN_MAX")
    nslices = prog.const("MI_SLICES_PER_SEGMENT")
    f = prog.fn("mi_slice_bin8")
    it = Interp(prog)
    ctx.check(R, len(S) == binmax + 1 and all(S[k] < S[k + 1] for k in range(1, binmax)) and S[binmax] >= nslices, "src/init.c tld_empty.segments.spans[]",
              "%d span queues, strictly increasing from bin 1, the last (%d slices) covers a whole segment (%d)" % (len(S), S[binmax], nslices), key="C16.A6:table")
    res = prove(lambda cell: it.call("mi_slice_bin8", [AV(cell[0][0], cell[0][1])]), [((0, 0),)], lambda cell, r: True if r.lo == r.hi == 0 else False, budget=10)
    run_ob(ctx, R, f.where(), "slice_count 0 ↦ bin 0", "C16.A6:bin:0", res)
    for k in range(1, binmax + 1):
        lo = S[k - 1] + 1 if k > 1 else 1
        hi = min(S[k], nslices)
        if hi < lo:
            continue
        res = prove(lambda cell: it.call("mi_slice_bin8", [AV(cell[0][0], cell[0][1])]), [((lo, hi),)],
                    lambda cell, r, k=k: True if (r.lo == r.hi == k) else (False if (r.hi < k or r.lo > k) else None), budget=2000)
        run_ob(ctx, R, f.where(), "slice_count ∈ [%d,%d] ↦ span queue %d (%d slices)" % (lo, hi, k, S[k]), "C16.A6:bin:%d" % k, res)
    ctx.floor(R, 30)


def a7(ctx, prog, tier):
    R = ctx.rule("C16.A7", "fast division: for every block size d of the table and every n in [0, page size): mi_fast_divide(n, magic(d), shift(d)) = floor(n/d)")
    T = bin_table(prog)
    huge = prog.const("MI_BIN_HUGE")
    med = prog.const("MI_MEDIUM_OBJ_SIZE_MAX")
    small_max = prog.const("MI_SMALL_OBJ_SIZE_MAX")
    f = prog.fn("mi_fast_divide")
    # evaluate mi_get_fast_divisor's two formulas by the analyser (the out-parameters are pointer stores: evaluate their right-hand sides)
    g = prog.fn("mi_get_fast_divisor")
    it = Interp(prog)
    outs = {}
    for a, lhs, rhs, op in g.stores():
        l = g.strip(lhs)
        if g.nodes[l]["k"] == "UnaryOperator" and g.nodes[l]["op"] == "*":
            outs[rl.var_of(g, g.nodes[l]["c"][0])] = rhs
    sp, mp = g.param_id(2), g.param_id(1)
    if sp not in outs or mp not in outs:
        raise AnalysisBroken("C16.A7: *shift / *magic stores not found in mi_get_fast_divisor")
    ds = sorted({t for t in T[1:huge] if t <= med})
    todo = ds if tier == "thorough" else [d for d in ds if d in (8, 16, 24, 48, 80, 1024, 8192) or d == ds[-1] or d == ds[len(ds) // 2]]
    for d in todo:
        env = {g.param_id(0): AV(d)}
        shift = it.eval(g, outs[sp], env, 0)
        # `*shift` is read back by the magic formula: bind it as a pseudo-variable by substituting the dereference
        class ItS(Interp):
            pass
        it2 = Interp(prog)
        def ev_magic():
            # evaluate the magic expression with `*shift` replaced by its value
            saved = Interp.eval
            def patched(self, ff, i, e, dep):
                n = ff.nodes[i]
                if ff is g and n["k"] == "UnaryOperator" and n["op"] == "*" and rl.var_of(g, n["c"][0]) == sp:
                    return shift
                if ff is g and n["k"] == "ImplicitCastExpr" and n.get("ck") == "LValueToRValue":
                    c = ff.nodes[n["c"][0]]
                    if c["k"] == "UnaryOperator" and c["op"] == "*" and rl.var_of(g, c["c"][0]) == sp:
                        return shift
                return saved(self, ff, i, e, dep)
            Interp.eval = patched
            try:
                return it2.eval(g, outs[mp], dict(env), 0)
            finally:
                Interp.eval = saved
        magic = ev_magic()
        page = prog.const("MI_SMALL_PAGE_SIZE") if d <= small_max else prog.const("MI_MEDIUM_PAGE_SIZE")
        nblocks = page // d
        if tier == "thorough" or nblocks <= 600:
            ks = range(nblocks + 1)
        else:
            ks = sorted(set(list(range(0, 40)) + list(range(nblocks - 40, nblocks + 1)) + [1 << j for j in range(5, nblocks.bit_length())] + [(1 << j) - 1 for j in range(5, nblocks.bit_length())]))
        cells = [((k * d, min((k + 1) * d - 1, page - 1)),) for k in ks if k * d < page]
        exp = {c[0][0]: c[0][0] // d for c in cells}
        res = prove(lambda cell: it.call("mi_fast_divide", [AV(cell[0][0], cell[0][1]), magic, shift]), cells,
                    lambda cell, r: True if (r.lo == r.hi == cell[0][0] // d) else (False if (r.hi < cell[0][0] // d or r.lo > cell[0][0] // d) else None), budget=200000)
        run_ob(ctx, R, f.where(), "d=%d (magic %s, shift %s): n ∈ [kd,(k+1)d-1] ↦ k for %s k in [0,%d]" % (d, magic, shift, "all" if len(list(ks)) == nblocks + 1 else "%d boundary" % len(cells), nblocks),
               "C16.A7:d:%d" % d, res, extra="" if len(cells) >= nblocks else " [quick tier: boundary cells only; thorough proves all]")
    ctx.floor(R, 6)


def a8(ctx, prog):
    R = ctx.rule("C16.A8", "pointer→segment→slice: ∀ p ∈ (kS, (k+1)S]: _mi_ptr_segment(p) = kS (S = MI_SEGMENT_SIZE, k >= 1); the slice index of p is in [0, MI_SLICES_PER_SEGMENT] and slices[] has room for it")
    S = prog.const("MI_SEGMENT_SIZE")
    k = S.bit_length() - 1
    f = prog.fn("_mi_ptr_segment")
    it = Interp(prog)
    rets = [r for r in f.all(kind="ReturnStmt")]
    seg_decl = [dd for _, dd in rl.local_decl(f, lambda dd: "init" in dd)]
    if not seg_decl:
        raise AnalysisBroken("C16.A8: _mi_ptr_segment has no local computed from p")
    def ev(cell):
        env = {f.param_id(0): Based(k, AV(cell[0][0], cell[0][1], 64, True))}
        return it.eval(f, seg_decl[0]["init"], env, 0)
    res = prove(ev, [((1, S),)], lambda cell, r: (True if (isinstance(r, Based) and r.dbase == 0 and r.off.lo == r.off.hi == 0) else False if isinstance(r, Based) and (r.off.hi < 0 or r.off.lo > 0) else None), budget=200)
    run_ob(ctx, R, f.where(), "p = B·2^%d + v, v ∈ [1, 2^%d] ↦ B·2^%d (so a block that starts exactly at the next segment boundary still resolves to its own segment)" % (k, k, k), "C16.A8:segment", res)
    g = prog.fn("_mi_segment_page_of")
    # by role: the index is whatever subscripts segment->slices (as slices[i] or slices + i), the difference is the local
    # computed as a pointer difference of the two parameters
    idx_nodes = [g.nodes[x]["c"][1] for x in g.all(kind="ArraySubscriptExpr") if rl.field_is(g, g.nodes[x]["c"][0], "slices") and g.nodes[x].get("macro") not in ("mi_assert_internal", "mi_assert")]
    idx_nodes += [o for x in g.all(kind="BinaryOperator") if g.nodes[x]["op"] == "+" and g.nodes[x].get("macro") not in ("mi_assert_internal", "mi_assert")
                  for s_, o in ((g.nodes[x]["c"][0], g.nodes[x]["c"][1]), (g.nodes[x]["c"][1], g.nodes[x]["c"][0])) if rl.field_is(g, s_, "slices") and g.cv(o) is None]
    diffs = [dd for _, dd in rl.local_decl(g, lambda dd: "init" in dd and g.nodes[g.strip(dd["init"])]["k"] == "BinaryOperator" and g.nodes[g.strip(dd["init"])]["op"] == "-")]
    if not idx_nodes or not diffs:
        raise AnalysisBroken("C16.A8: diff local / slices index of _mi_segment_page_of not found")
    nsl = prog.const("MI_SLICES_PER_SEGMENT")
    it8 = Interp(prog)
    it8.lazy_locals = True
    def ev2(cell):
        env = {diffs[0]["d"]: AV(cell[0][0], cell[0][1], 64, True)}
        return it8.eval(g, idx_nodes[0], env, 0)
    res = prove(ev2, [((1, S),)], lambda cell, r: True if (0 <= r.lo and r.hi <= nsl) else (False if r.lo > nsl else None), budget=200)
    run_ob(ctx, R, g.where(), "diff ∈ [1, S] ↦ idx ∈ [0, %d]" % nsl, "C16.A8:index", res)
    rec = prog.records.get("mi_segment_s")
    arr = next((fd.get("arr") for fd in rec["fields"] if fd["n"] == "slices"), None) if rec else None
    ctx.check(R, arr == nsl + 1, "include/mimalloc/types.h mi_segment_t", "slices[] has MI_SLICES_PER_SEGMENT+1 = %d entries (found %s)" % (nsl + 1, arr), key="C16.A8:slices")
    diffok = g.mentions_decl(diffs[0]["init"], g.param_id(1)) and g.mentions_decl(diffs[0]["init"], g.param_id(0))
    ctx.check(R, diffok, g.where(), "diff = p - segment", key="C16.A8:diff")
    ctx.floor(R, 4)


def a9(ctx, prog):
    R = ctx.rule("C16.A9", "_mi_page_ptr_unalign(page,p) = p − ((p − page_start) mod block_size) in both branches, computed at full pointer width; block_size_shift is ctz(block_size) exactly for powers of two, else 0")
    f = prog.fn("_mi_page_ptr_unalign")
    it = Interp(prog)
    diffs = [dd for _, dd in rl.local_decl(f, lambda dd: "init" in dd and f.mentions_field(dd["init"], "page_start"))]
    adj = [dd for _, dd in rl.local_decl(f, lambda dd: dd["n"] == "adjust" or ("init" not in dd and dd["t"] == "size_t"))]
    if not diffs or not adj:
        raise AnalysisBroken("C16.A9: diff/adjust locals not found")
    dd_, ad = diffs[0]["d"], adj[0]["d"]
    defs = []
    for a, rhs, op in f.var_defs(ad):
        if rhs is None:
            continue
        j = f.strip(rhs)
        if f.nodes[j]["k"] == "ConditionalOperator":     # adjust = (shift != 0 ? mask form : modulo form)
            defs.append((a, f.nodes[j]["then"], (f.nodes[j]["cond"], True)))
            defs.append((a, f.nodes[j]["else"], (f.nodes[j]["cond"], False)))
        else:
            defs.append((a, rhs, None))
    ctx.check(R, len(defs) == 2, f.where(), "two definitions of adjust (shift path, generic path)", key="C16.A9:shape")
    for a, rhs, sel in defs:
        j = f.strip(rhs)
        n = f.nodes[j]
        # no narrowing anywhere in the expression: every integer-typed sub-expression is 64 bits wide
        narrow = [x for x in f.walk(rhs) if f.nodes[x].get("w") and abs(f.nodes[x]["w"]) < 64 and f.nodes[x]["k"] not in ("IntegerLiteral",) and "cv" not in f.nodes[x]
                  and not rl.field_is(f, x, "block_size_shift") and f.nodes[f.strip(x)]["k"] != "MemberExpr"]
        ctx.check(R, not narrow, f.where(a), "adjust is computed at 64-bit width (%s)" % ("no narrowing" if not narrow else "narrowed: " + f.text(narrow[0])), key="C16.A9:width")
        if n["k"] == "BinaryOperator" and n["op"] == "%":
            ok = rl.var_of(f, n["c"][0]) == dd_ and (rl.is_call(f, f.strip(n["c"][1]), "mi_page_block_size") or rl.field_is(f, n["c"][1], "block_size"))
            ctx.check(R, ok, f.where(a), "generic path: adjust = diff %% block_size (%s)" % f.text(j), key="C16.A9:mod")
        elif n["k"] == "BinaryOperator" and n["op"] == "&":
            txt = rl.canon(f, j).replace(" ", "")
            ok = rl.var_of(f, n["c"][0]) == dd_ and "<<$0->block_size_shift)-1)" in txt
            ctx.check(R, ok, f.where(a), "shift path: adjust = diff & ((1 << shift) - 1) (%s)" % txt, key="C16.A9:mask")
            nz = lambda e, pol: isinstance(e, int) and rl.fact_nonnull(f, e, pol, lambda x: rl.field_is(f, x, "block_size_shift"))
            if sel is not None:
                w = None if any(nz(e_, p_) for e_, p_ in rl.facts_of(f, sel[0], sel[1])) else ["the `?:` does not select the mask form on shift != 0"]
            else:
                w = f.cfg.guarded(f.cfg.pt(a), nz)
            ctx.check(R, w is None, f.where(a), "the mask is used only when block_size_shift != 0", key="C16.A9:mask:guard", witness=w)
        else:
            ctx.fail(R, f.where(a), "unrecognised adjust definition %s" % f.text(j), key="C16.A9:other")
    rets = [r for r in f.all(kind="ReturnStmt")]
    pm9 = {d: "$%d" % k for k, d in enumerate(f.pids)}
    pm9[ad] = "#adjust"
    ok = len(rets) == 1 and rl.canon(f, f.nodes[rets[0]]["val"], pm9).replace(" ", "") in ("($1-#adjust)",)
    ctx.check(R, ok, f.where(), "returns p − adjust", key="C16.A9:ret")
    g = prog.fn("mi_page_init")
    sts = [(a, rhs) for a, l, rhs, op in g.field_stores("block_size_shift")]
    # the block-size parameter by role: the one stored into page->block_size
    bs = next((rl.var_of(g, rhs) for a, l, rhs, op in g.field_stores("block_size") if rhs is not None and rl.var_of(g, rhs) in g.pids), None)
    ok = len(sts) == 2
    for a, rhs in sts:
        if g.cv(rhs) == 0:
            continue
        pw = g.cfg.guarded(g.cfg.pt(a), lambda e, pol: isinstance(e, int) and pol and rl.is_call(g, g.strip(e), "_mi_is_power_of_two"))
        ok = ok and pw is None and any(rl.is_call(g, x, "mi_ctz") and g.mentions_decl(x, bs) for x in g.walk(rhs))
    ctx.check(R, ok, g.where(), "block_size_shift = ctz(block_size) on the power-of-two edge, 0 otherwise", key="C16.A9:writer")
    ctx.floor(R, 7)


def a10(ctx, prog):
    R = ctx.rule("C16.A10", "alignment helpers: for the alignments used (16, 4096, 64 KiB, 32 MiB) _mi_align_up/_mi_align_down/_mi_divide_up satisfy their laws on every residue cell of the first pages and on high pages; mi_bitmap_mask_ is exact")
    it = Interp(prog)
    for al in (16, 4096, 65536, 1 << 25):
        for name, law in (("_mi_align_up", lambda n, a: ((n + a - 1) // a) * a), ("_mi_align_down", lambda n, a: (n // a) * a), ("_mi_divide_up", lambda n, a: (n + a - 1) // a)):
            cells = []
            for base in (0, al, 7 * al, (1 << 40), (1 << 47) - 2 * al):
                b = (base // al) * al
                cells.append(((b + 1, b + al), (al, al)))     # (kA, (k+1)A]
                cells.append(((b, b), (al, al)))
            def post(cell, r, law=law):
                lo, hi = cell[0]
                e1, e2 = law(lo, al), law(hi, al)
                if name == "_mi_align_down" and lo // al != hi // al:
                    return None
                if e1 != e2:
                    return None
                return True if r.lo == r.hi == e1 else (False if (r.hi < e1 or r.lo > e1) else None)
            res = prove(lambda cell, name=name: it.call(name, [AV(cell[0][0], cell[0][1]), AV(al)]), cells, post, budget=4000)
            run_ob(ctx, R, prog.fn(name).where(), "%s(n, %d) on %d boundary cells" % (name, al, len(cells)), "C16.A10:%s:%d" % (name, al), res)
    # ∀ sz (any multiple-of-A base + residue v): align_up/align_down laws for power-of-two A, by K-aligned based values
    for al in (16, 4096, 65536, 1 << 25):
        k = al.bit_length() - 1
        for name in ("_mi_align_up", "_mi_align_down"):
            def ev(cell, name=name, k=k):
                x = Based(k, AV(cell[0][0], cell[0][1], 64, True))
                r = it.call(name, [x, AV(al)])
                return (x, r)
            def post(cell, xr, name=name):
                x, r = xr
                if not isinstance(r, Based) or r.dbase != 0:
                    return None
                lo, hi = cell[0]
                if r.off.lo != r.off.hi:
                    return None
                v = r.off.lo
                if name == "_mi_align_up":
                    return True if (v % al == 0 and v >= hi and v - lo < al) else (False if v < lo else None)
                return True if (v % al == 0 and v <= lo and hi - v < al) else (False if v > hi else None)
            res = prove(ev, [((0, 0),), ((1, al - 1),), ((al, al),), ((al + 1, 2 * al - 1),)], post, budget=2000)
            run_ob(ctx, R, prog.fn(name).where(), "∀ sz = B·%d + v: %s(sz, %d) is the multiple of %d %s sz (proved for every base B >= 1 and every residue v)" % (al, name, al, al, "at or above, less than A above" if name == "_mi_align_up" else "at or below, less than A below"),
                   "C16.A10:forall:%s:%d" % (name, al), res)
    bits = prog.const("MI_BITMAP_FIELD_BITS")
    cells = [((c, c), (b, b)) for c in range(1, bits + 1) for b in range(0, bits + 1 - c) if (c in (1, 2, 31, 32, 33, 63, 64) or b in (0, 1, 31, 63 - c, 64 - c))]
    res = prove(lambda cell: it.call("mi_bitmap_mask_", [AV(cell[0][0]), AV(cell[1][0])]), cells,
                lambda cell, r: True if r.lo == r.hi == (((1 << cell[0][0]) - 1) << cell[1][0]) else False, budget=20000)
    run_ob(ctx, R, prog.fn("mi_bitmap_mask_").where(), "mi_bitmap_mask_(count, bitidx) = ((2^count − 1) << bitidx) for %d (count,bitidx) pairs incl. the full-field case" % len(cells), "C16.A10:bitmap_mask", res)
    ctx.floor(R, 21)


def a11(ctx, prog_dbg):
    R = ctx.rule("C16.A11", "(debug configuration) the arithmetic mi_assert_internal's inside mi_bin / mi_slice_bin8 / mi_bitmap_mask_ hold on every cell — the repository's own assertions as oracle")
    T = bin_table(prog_dbg)
    huge = prog_dbg.const("MI_BIN_HUGE")
    med = prog_dbg.const("MI_MEDIUM_OBJ_SIZE_MAX")
    it = Interp(prog_dbg)
    res = prove(lambda cell: it.call("mi_bin", [AV(cell[0][0], cell[0][1])]), [((0, med + 4096),)], lambda cell, r: True, budget=20000)
    run_ob(ctx, R, prog_dbg.fn("mi_bin").where(), "no assertion of mi_bin can fail for size ∈ [0, %d]" % (med + 4096), "C16.A11:mi_bin", res)
    nsl = prog_dbg.const("MI_SLICES_PER_SEGMENT")
    res = prove(lambda cell: it.call("mi_slice_bin", [AV(cell[0][0], cell[0][1])]), [((0, nsl),)], lambda cell, r: True, budget=20000)
    run_ob(ctx, R, prog_dbg.fn("mi_slice_bin").where(), "no assertion of mi_slice_bin/mi_slice_bin8 can fail for slice_count ∈ [0, %d]" % nsl, "C16.A11:mi_slice_bin", res)
    ctx.floor(R, 2)


def run(ctx):
    ctx.explanation = ("∀-input proofs by interval abstract interpretation of the extracted source of mi_bin, mi_good_size, mi_slice_bin8, mi_fast_divide, _mi_ptr_segment, "
                       "_mi_segment_page_of's index, the alignment helpers and mi_bitmap_mask_, over partitions of their whole input domains (including size up to PTRDIFF_MAX as a "
                       "handful of cells); table obligations on clang's folded initialisers; structural obligations for _mi_page_ptr_unalign. Each obligation is either proved on every "
                       "cell, refuted with a concrete witness input, or reported as undecided (exit 2). Nothing is executed.")
    ctx.trusted = ctx.trusted + ["/verif/lib/absint.py: interval transfer functions over C integer semantics (width, wrap detection), models of __builtin_clzl/ctzl/expect"]
    ctx.assumptions = ["LP64 data model as reported by clang for this target", "_mi_os_page_size() ∈ {4 KiB, 16 KiB, 64 KiB} (A4 above the medium maximum is a sampled law, stated as such)"]
    prog = ctx.prog("REL")
    pad = prog.const("MI_PADDING_SIZE")
    a1(ctx, prog, pad); a2(ctx, prog); a3(ctx, prog); a4(ctx, prog); a5(ctx, prog); a6(ctx, prog); a7(ctx, prog, ctx.tier); a8(ctx, prog); a9(ctx, prog); a10(ctx, prog)
    if ctx.tier == "thorough":
        dbg = ctx.prog("DBG")
        a11(ctx, dbg)
        for c in ("SEC", "DBG"):
            p2 = ctx.prog(c)
            n0 = len(ctx.instances)
            a1(ctx, p2, p2.const("MI_PADDING_SIZE")); a4(ctx, p2); a9(ctx, p2)
            for i in ctx.instances[n0:]:
                i["site"] += " [%s]" % c
                if not i["ok"]:
                    i["key"] += ":" + c
