"""C06 — malformed / oversized requests fail cleanly (DESIGN §4 C06). Level: other.

Decided: every (count,size) entry point checks the multiplication the same way or forwards the pair unchanged (R1), the size ceiling
dominates huge allocation (R2), alignment validation dominates allocation and posix_memalign's store (R3), errno conventions (R4).
Not decided: that a well-formed request fails only when the OS refuses (liveness); absence of *any* heap side effect on failure.
"""
import rl, shared
from facts import AnalysisBroken

LEVEL = "other"
NEUTRAL = {"__builtin_expect", "mi_prim_get_default_heap", "__errno_location", "mi_try_new_handler", "_mi_error_message", "_mi_assert_fail"}


def family(prog):
    """functions that take an element count and an element size: (a) named so in the public header, (b) hand two adjacent
    size_t parameters to mi_count_size_overflow, or (c) forward two adjacent size_t parameters into the pair of a member"""
    fam = {}
    for f in prog.fns.values():
        if f.name in ("mi_mul_overflow", "mi_count_size_overflow"):
            continue
        ps = f.d["params"]
        names = prog.param_names(f.name)
        for k in range(len(ps) - 1):
            if ps[k]["t"] == "size_t" and ps[k + 1]["t"] == "size_t" and len(names) == len(ps) and names[k] in ("count", "newcount", "n") and names[k + 1] == "size":
                fam[f.name] = k
        for c in f.calls("mi_count_size_overflow"):
            a = f.nodes[c]["args"]
            d0, d1 = rl.var_of(f, a[0]), rl.var_of(f, a[1])
            if d0 in f.pids and d1 in f.pids and f.pids.index(d1) == f.pids.index(d0) + 1:
                fam.setdefault(f.name, f.pids.index(d0))
    changed = True
    while changed:
        changed = False
        for f in prog.fns.values():
            if f.name in fam or f.name in ("mi_mul_overflow", "mi_count_size_overflow"):
                continue
            for c in f.calls():
                cal = f.nodes[c].get("callee")
                if cal in fam:
                    a = f.nodes[c]["args"]
                    kk = fam[cal]
                    if kk + 1 < len(a):
                        d0, d1 = rl.var_of(f, a[kk]), rl.var_of(f, a[kk + 1])
                        if d0 in f.pids and d1 in f.pids and f.pids.index(d1) == f.pids.index(d0) + 1 and f.d["params"][f.pids.index(d0)]["t"] == "size_t":
                            fam[f.name] = f.pids.index(d0)
                            changed = True
    return fam


def r1(ctx, prog):
    R = ctx.rule("C06.R1", "every function with a (count,size) pair either checks mi_count_size_overflow(count,size,&total) first, returns NULL on overflow before touching "
                           "anything, and passes `total` on — or forwards the pair unchanged to another member of the family")
    fam = family(prog)
    for name, k in sorted(fam.items()):
        f = prog.fn(name)
        cfg = f.cfg
        cd, sd = f.param_id(k), f.param_id(k + 1)
        checks = [c for c in f.calls("mi_count_size_overflow")]
        others = [c for c in f.calls() if f.nodes[c].get("callee") not in NEUTRAL and f.nodes[c].get("callee") != "mi_count_size_overflow"]
        site = f.where()
        if checks:
            c = checks[0]
            a = f.nodes[c]["args"]
            good_args = rl.var_of(f, a[0]) == cd and rl.var_of(f, a[1]) == sd
            tot = None
            t = f.strip(a[2])
            if f.nodes[t]["k"] == "UnaryOperator" and f.nodes[t]["op"] == "&":
                tot = rl.var_of(f, f.nodes[t]["c"][0])
            ok = good_args and tot is not None
            why = []
            if not good_args:
                why.append("overflow check is not on exactly (count, size)")
            # every other call only on the no-overflow edge
            no_ovf = lambda e, pol: isinstance(e, int) and (not pol) and rl.is_call(f, f.strip(e), "mi_count_size_overflow")
            for o in others:
                if cfg.guarded(cfg.pt(o), no_ovf) is not None:
                    ok = False
                    why.append("%s is reachable without passing the overflow check" % f.nodes[o]["callee"])
                args = f.nodes[o]["args"]
                ds = [rl.var_of(f, x) for x in args]
                if cd in ds or sd in ds:
                    ok = False
                    why.append("%s receives count/size instead of the checked total" % f.nodes[o]["callee"])
                elif tot is not None and tot not in ds:
                    ok = False
                    why.append("%s does not receive the checked total" % f.nodes[o]["callee"])
            # overflow edge returns NULL
            hit = [(p, q) for p, q, e, pol in rl.edges_with_fact(f, lambda e, pol: isinstance(e, int) and pol and rl.is_call(f, f.strip(e), "mi_count_size_overflow"))]
            for p_, q in hit:
                if not rl.returns_only(f, q, 0, src=p_):
                    ok = False
                    why.append("the overflow edge does not return NULL")
            if not hit:
                ok = False
                why.append("result of the overflow check does not control a branch")
            ctx.check(R, ok, site, "checks the multiplication itself" + ("" if ok else ": " + "; ".join(why)), key="C06.R1:%s" % name)
        else:
            fw = [o for o in others if f.nodes[o].get("callee") in fam]
            ok = len(fw) == 1 and len(others) == 1
            why = ""
            if ok:
                o = fw[0]
                kk = fam[f.nodes[o]["callee"]]
                args = f.nodes[o]["args"]
                ok = kk + 1 < len(args) and rl.var_of(f, args[kk]) == cd and rl.var_of(f, args[kk + 1]) == sd
                why = "" if ok else "the pair is not forwarded unchanged to %s" % f.nodes[o]["callee"]
            else:
                why = "neither checks the multiplication nor forwards the pair to exactly one family member (calls: %s)" % [f.nodes[o].get("callee") for o in others]
            ctx.check(R, ok, site, "forwards (count,size) unchanged to %s" % (f.nodes[fw[0]]["callee"] if fw else "?") if ok else why, key="C06.R1:%s" % name)
    g = prog.fn("mi_count_size_overflow")
    # on the edge where mi_mul_overflow reports an overflow the function returns true (directly, by returning the call, or through a
    # result variable)
    ovf = [(p_, q) for p_, q, e, pol in rl.edges_with_fact(g, rl.fact_call_true(g, "mi_mul_overflow"))]
    direct = any(rl.is_call(g, g.strip(g.nodes[r]["val"]), "mi_mul_overflow") for r in g.all(kind="ReturnStmt") if "val" in g.nodes[r])
    ok = any(True for _ in g.calls("mi_mul_overflow")) and (direct or (bool(ovf) and all(rl.returns_only(g, q, 1, src=p_) for p_, q in ovf)))
    ctx.check(R, ok, g.where(), "mi_count_size_overflow multiplies with mi_mul_overflow", key="C06.R1:helper")
    m = prog.fn("mi_mul_overflow")
    ok = any(f2 for f2 in m.calls(("__builtin_umull_overflow", "__builtin_umulll_overflow", "__builtin_umul_overflow")))
    ctx.check(R, ok, m.where(), "mi_mul_overflow uses the compiler's checked multiplication (trusted builtin)", key="C06.R1:builtin")
    if len(fam) < 25:
        ctx.broke("C06.R1: family has %d members, 25 confirmed on the pinned tree" % len(fam))
    ctx.floor(R, 27)


def r2(ctx, prog):
    R = ctx.rule("C06.R2", "size ceiling: huge allocation only below MI_MAX_ALLOC_SIZE; the aligned generic path refuses size > MI_MAX_ALLOC_SIZE - padding; pvalloc checks before rounding up")
    maxalloc = prog.const("MI_MAX_ALLOC_SIZE")
    ptrdiff_max = prog.const("PTRDIFF_MAX")
    ctx.check(R, maxalloc <= ptrdiff_max, "include/mimalloc/types.h MI_MAX_ALLOC_SIZE", "MI_MAX_ALLOC_SIZE (%d) <= PTRDIFF_MAX" % maxalloc, key="C06.R2:const")
    f = prog.fn("mi_find_page")
    cfg = f.cfg
    def below(e, pol):
        if not isinstance(e, int):
            return False
        c = rl.norm_cmp(f, e, pol)
        return c is not None and c[0] == "<=" and f.cv(c[2]) is not None and f.cv(c[2]) <= maxalloc and f.cv(c[1]) is None
    for c in f.calls("mi_large_huge_page_alloc"):
        w = cfg.guarded(cfg.pt(c), below)
        ctx.check(R, w is None, f.where(c), "mi_large_huge_page_alloc only on the `req_size <= MI_MAX_ALLOC_SIZE` edge", key="C06.R2:find_page", witness=w)
    def above(e, pol):
        if not isinstance(e, int):
            return False
        c = rl.norm_cmp(f, e, pol)
        return c is not None and c[0] == ">" and f.cv(c[2]) == maxalloc
    hit = [q for p, q, e, pol in rl.edges_with_fact(f, above)]
    ok = bool(hit)
    for q in hit:
        ok = ok and rl.returns_only(f, q, 0)
    ctx.check(R, ok, f.where(), "a request above the ceiling returns NULL", key="C06.R2:find_page:null")
    # the binned (small/medium) path is taken only for a *wrap-corrected* size within the medium limit: with padding the size that
    # arrives here is request + MI_PADDING_SIZE and may have wrapped around; only `size - MI_PADDING_SIZE` tells a huge request
    # from a tiny one (in the release configuration the padding is 0 and both spellings coincide)
    pad_ = prog.const("MI_PADDING_SIZE")
    med_ = prog.const("MI_MEDIUM_OBJ_SIZE_MAX")
    szp = f.param_id(1)
    pm_ = {d: "$%d" % k for k, d in enumerate(f.pids)}
    def medium(e, pol):
        if not isinstance(e, int):
            return False
        c_ = rl.oriented(f, e, pol, lambda j: f.mentions_decl(j, szp) or "$1" in rl.canon(f, j, pm_), rl.is_const(f))
        if c_ is None or c_[0] not in ("<=", "<"):
            return False
        x = rl.canon(f, c_[1], pm_).replace(" ", "")
        k = f.cv(c_[2]) + (0 if c_[0] == "<=" else -1)
        return (x == "($1-%d)" % pad_ and k <= med_ - pad_) if pad_ else (x in ("$1", "($1-0)") and k <= med_)
    for c in f.calls("mi_find_free_page"):
        w = f.cfg.guarded(f.cfg.pt(c), medium)
        ctx.check(R, w is None, f.where(c), "the binned path only for size - MI_PADDING_SIZE <= MI_MEDIUM_OBJ_SIZE_MAX - MI_PADDING_SIZE (a wrapped padded size must not look small)",
                  key="C06.R2:find_page:medium", witness=w)
    # small/medium path is only taken below MI_MEDIUM_OBJ_SIZE_MAX
    g = prog.fn("mi_heap_malloc_zero_aligned_at_generic")
    cfg = g.cfg
    sz = g.param_id(1)
    pad = prog.const("MI_PADDING_SIZE")
    def sz_ok(e, pol):
        if not isinstance(e, int):
            return False
        c = rl.norm_cmp(g, e, pol)
        return c is not None and rl.var_of(g, c[1]) == sz and c[0] == "<=" and g.cv(c[2]) is not None and g.cv(c[2]) <= maxalloc - pad
    for c in g.calls():
        cal = g.nodes[c].get("callee")
        if cal in ("mi_heap_malloc_zero_no_guarded", "mi_heap_malloc_zero_aligned_at_overalloc", "_mi_heap_malloc_zero"):
            w = cfg.guarded(cfg.pt(c), sz_ok)
            ctx.check(R, w is None, g.where(c), "%s only when size <= MI_MAX_ALLOC_SIZE - MI_PADDING_SIZE" % cal, key="C06.R2:aligned_generic", witness=w)
    h = prog.fn("mi_pvalloc")
    cfg = h.cfg
    sz = h.param_id(0)
    def no_wrap(e, pol):
        if not isinstance(e, int):
            return False
        return rl.establishes(h, e, pol, "<", rl.is_local(h, sz), lambda j: h.mentions(j, lambda m: m.get("cv") == prog.const("SIZE_MAX") or m.get("macro") == "SIZE_MAX"))
    for c in h.calls("_mi_align_up"):
        w = cfg.guarded(cfg.pt(c), no_wrap)
        ctx.check(R, w is None, h.where(c), "pvalloc rounds up only after `size < SIZE_MAX - psize`", key="C06.R2:pvalloc", witness=w)
    ctx.floor(R, 6)


def r3(ctx, prog):
    R = ctx.rule("C06.R3", "alignment validation: non-power-of-two/zero alignment returns NULL before any allocation; posix_memalign validates before it allocates and "
                           "stores *p only on success")
    f = prog.fn("mi_heap_malloc_zero_aligned_at")
    cfg = f.cfg
    al = f.param_id(2)
    def pow2(e, pol):
        return isinstance(e, int) and pol and rl.is_call(f, f.strip(e), "_mi_is_power_of_two") and rl.var_of(f, f.nodes[f.strip(e)]["args"][0]) == al
    def nonzero(e, pol):
        return isinstance(e, int) and rl.fact_nonnull(f, e, pol, rl.is_var(f, al))
    allocs = [c for c in f.calls() if f.nodes[c].get("callee") in ("_mi_page_malloc_zeroed", "_mi_page_malloc", "_mi_page_malloc_zero", "mi_heap_malloc_zero_aligned_at_generic",
                                                                    "_mi_heap_get_free_small_page", "mi_heap_malloc_guarded_aligned")]
    if len(allocs) < 3:
        ctx.broke("C06.R3: allocation calls of mi_heap_malloc_zero_aligned_at not found")
    for c in allocs:
        w1, w2 = cfg.guarded(cfg.pt(c), pow2), cfg.guarded(cfg.pt(c), nonzero)
        ctx.check(R, w1 is None and w2 is None, f.where(c), "%s only after alignment != 0 and _mi_is_power_of_two(alignment)" % f.nodes[c]["callee"], key="C06.R3:aligned_at", witness=w1 or w2)
    g = prog.fn("mi_posix_memalign")
    cfg = g.cfg
    pp, al = g.param_id(0), g.param_id(1)
    einval, enomem = prog.const("EINVAL"), prog.const("ENOMEM")
    stores = [a for a, lhs, rhs, op in g.stores() if g.nodes[g.strip(lhs)]["k"] == "UnaryOperator" and g.nodes[g.strip(lhs)]["op"] == "*" and g.is_ref(g.nodes[g.strip(lhs)]["c"][0], pp)]
    allocs = list(g.calls(("mi_malloc_aligned", "mi_heap_malloc_aligned", "mi_malloc_aligned_at")))
    ctx.check(R, len(stores) == 1 and len(allocs) == 1, g.where(), "one allocation and one store to *p", key="C06.R3:posix:shape")
    def al_word(e, pol):
        if not isinstance(e, int):
            return False
        c = rl.norm_cmp(g, e, pol)
        if c is None or c[0] != "==" or g.cv(c[2]) != 0:
            return False
        j = g.strip(c[1])
        n_ = g.nodes[j]
        # alignment % sizeof(void*)  or the same thing as a mask  alignment & (sizeof(void*)-1)
        return n_["k"] == "BinaryOperator" and rl.var_of(g, n_["c"][0]) == al and ((n_["op"] == "%" and g.cv(n_["c"][1]) == 8) or (n_["op"] == "&" and g.cv(n_["c"][1]) == 7))
    def al_pow2(e, pol):
        return isinstance(e, int) and pol and rl.is_call(g, g.strip(e), "_mi_is_power_of_two")
    def p_nonnull(e, pol):
        return isinstance(e, int) and rl.fact_nonnull(g, e, pol, rl.is_var(g, pp))
    for c in allocs + stores:
        for nm, fact in (("p != NULL", p_nonnull), ("alignment % sizeof(void*) == 0", al_word), ("power of two", al_pow2)):
            w = cfg.guarded(cfg.pt(c), fact)
            ctx.check(R, w is None, g.where(c), "reached only after `%s` was established" % nm, key="C06.R3:posix:%s" % nm.split()[0], witness=w)
    # the store happens only when the allocation succeeded (or size == 0)
    qs = [dd["d"] for _, dd in rl.var_init_from(g, lambda j: rl.is_call(g, j, ("mi_malloc_aligned", "mi_heap_malloc_aligned")))]
    for s in stores:
        def failed(lab, p, q):
            # the ENOMEM edge: q == NULL && size != 0
            return True
        # where the failure result is produced: `return ENOMEM;` or `err = ENOMEM;` for a result variable that is returned
        rvars = {rl.var_of(g, g.nodes[r]["val"]) for r in g.all(kind="ReturnStmt") if "val" in g.nodes[r] and not g.nodes[r].get("inl_ret")} - {None}
        rets_enomem = [r for r in g.all(kind="ReturnStmt") if g.cv(g.nodes[r].get("val", -1)) == enomem] + \
                      [a for d_ in rvars for a, rhs, op in g.var_defs(d_) if rhs is not None and g.cv(rhs) == enomem]
        ok = bool(rets_enomem) and bool(qs)
        if ok:
            # from the ENOMEM return's guarding edge the store is unreachable, and the store's value is q
            a, lhs, rhs, op = next(x for x in g.stores() if x[0] == s)
            ok = rl.var_of(g, rhs) == qs[0] and not any(cfg.reaches(cfg.pt(r), cfg.pt(s)) for r in rets_enomem)
            nullq = lambda e, pol: isinstance(e, int) and rl.fact_null(g, e, pol, rl.is_var(g, qs[0]))
            for r in rets_enomem:
                ok = ok and cfg.guarded(cfg.pt(r), nullq) is None
            # the store itself is reached only when the allocation succeeded or nothing was requested
            szp = g.param_id(2)
            def okq(e, pol):
                return isinstance(e, int) and (rl.fact_nonnull(g, e, pol, rl.is_var(g, qs[0])) or rl.fact_null(g, e, pol, rl.is_var(g, szp)))
            ok = ok and cfg.guarded(cfg.pt(s), okq) is None
        ctx.check(R, ok, g.where(s), "*p = q; the NULL result returns ENOMEM without storing", key="C06.R3:posix:store")
    bad = []
    for r in g.all(kind="ReturnStmt"):
        if g.nodes[r].get("inl_ret") or "val" not in g.nodes[r]:
            continue
        d_ = rl.var_of(g, g.nodes[r]["val"])
        vals_ = [g.cv(rhs) for a, rhs, op in g.var_defs(d_) if rhs is not None] if d_ is not None and d_ not in g.pids else [g.cv(g.nodes[r]["val"])]
        if any(v_ not in (0, einval, enomem) for v_ in vals_):
            bad.append(r)
    ctx.check(R, not bad, g.where(), "returns only 0, EINVAL or ENOMEM", key="C06.R3:posix:codes")
    ctx.floor(R, 10)


def r4(ctx, prog):
    R = ctx.rule("C06.R4", "errno conventions: mi_reallocarray sets ENOMEM on failure; mi_reallocarr returns EINVAL for NULL and errno otherwise, storing only on success")
    enomem, einval = prog.const("ENOMEM"), prog.const("EINVAL")
    f = prog.fn("mi_reallocarray")
    cfg = f.cfg
    def errno_store(f_, val):
        def pred(e):
            n = f_.nodes[e]
            if n["k"] != "BinaryOperator" or n["op"] != "=" or f_.cv(n["c"][1]) != val:
                return False
            return f_.mentions_call(n["c"][0], "__errno_location") or f_.mentions(n["c"][0], lambda m: m.get("macro") == "errno")
        return pred
    news = [dd["d"] for _, dd in rl.var_init_from(f, lambda j: rl.is_call(f, j, "mi_reallocn"))]
    ok = bool(news)
    if ok:
        hit = [q for p, q, e, pol in rl.edges_with_fact(f, lambda e, pol: isinstance(e, int) and rl.fact_null(f, e, pol, rl.is_var(f, news[0])))]
        ok = bool(hit) and all(cfg.must_pass([q], cfg.exit_points(), errno_store(f, enomem)) is None for q in hit)
    ctx.check(R, ok, f.where(), "errno = ENOMEM on every path with newp == NULL", key="C06.R4:reallocarray")
    g = prog.fn("mi_reallocarr")
    cfg = g.cfg
    pd = g.param_id(0)
    hit = [(p, q) for p, q, e, pol in rl.edges_with_fact(g, lambda e, pol: isinstance(e, int) and rl.fact_null(g, e, pol, rl.is_var(g, pd)))]
    ok = bool(hit)
    for p_, q in hit:
        ok = ok and rl.returns_only(g, q, einval, src=p_) and cfg.must_pass([q], cfg.exit_points(), errno_store(g, einval)) is None
    ctx.check(R, ok, g.where(), "p == NULL: errno = EINVAL and return EINVAL", key="C06.R4:reallocarr:null")
    shared.reallocarr_store(ctx, R, prog)
    ctx.floor(R, 3)


def run(ctx):
    ctx.explanation = ("Static decision of C06's code-shaped necessary conditions: sibling agreement of all 25 (count,size) entry points on the overflow check or pair forwarding, "
                       "dominance of the size-ceiling and alignment tests over every allocation call, posix_memalign's validate-then-allocate-then-store order, errno stores. "
                       "NOT decided: that well-formed requests fail only when the OS refuses; absence of any heap side effect on failure.")
    # the padded configuration is part of the quick tier too: the size-ceiling rule is only meaningful where MI_PADDING_SIZE != 0
    for c in (["REL", "SEC"] if ctx.tier == "quick" else ["REL", "SEC", "DBG"]):
        prog = ctx.prog(c)
        n0 = len(ctx.instances)
        if c == "SEC" and ctx.tier == "quick":
            r2(ctx, prog)
        else:
            r1(ctx, prog); r2(ctx, prog); r3(ctx, prog); r4(ctx, prog)
        if c != "REL":
            for i in ctx.instances[n0:]:
                i["site"] += " [%s]" % c
                if not i["ok"]:
                    i["key"] += ":" + c
