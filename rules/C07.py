"""C07 — OS refusals are survived without crash or corruption (DESIGN §4 C07). Level: other (error discipline over all call sites).

Decided: no failure result of the OS/arena/segment/page layers is dropped (R1), no pointer from a fallible allocator is dereferenced
unchecked (R2), "committed" state is recorded only after success and undone after failure (R3), partially built objects are released on
failure (R4), the allocation slow path retries once and then reports ENOMEM (R5), a huge segment never relies on lazy commit (R6).
Not decided: behaviour for every position of an injected fault sequence; "fully usable again afterwards".
"""
import rl, shared
from facts import AnalysisBroken

LEVEL = "other"

# fallible functions (failure value noted): every call site's result must be checked or propagated
FALLIBLE = """_mi_prim_alloc _mi_prim_commit _mi_prim_alloc_huge_os_pages
_mi_os_commit _mi_os_commit_ex _mi_os_alloc _mi_os_alloc_aligned _mi_os_alloc_aligned_at_offset _mi_os_alloc_huge_os_pages mi_os_prim_alloc mi_os_prim_alloc_aligned mi_os_prim_alloc_at
_mi_arena_alloc _mi_arena_alloc_aligned mi_arena_try_alloc mi_arena_try_alloc_at mi_arena_try_alloc_at_id mi_arena_reserve mi_arena_try_claim
mi_segment_commit mi_segment_ensure_committed mi_segment_span_allocate mi_segment_os_alloc mi_segment_alloc mi_segment_reclaim_or_alloc mi_segments_page_alloc
mi_segment_huge_page_alloc _mi_segment_page_alloc mi_segments_page_find_and_allocate
mi_page_fresh mi_page_fresh_alloc mi_find_page mi_find_free_page mi_large_huge_page_alloc mi_page_queue_find_free_ex mi_thread_data_zalloc _mi_arena_meta_zalloc
mi_manage_os_memory_ex2 mi_manage_os_memory_ex mi_reserve_os_memory_ex mi_reserve_huge_os_pages_at_ex mi_arena_add mi_segment_map_index_of _mi_thread_heap_init
mi_heap_malloc mi_heap_zalloc""".split()

# best-effort operations whose result may be ignored (one symbol, one reason)
BEST_EFFORT = {
    "_mi_os_reset": "reset is advisory (madvise); the memory stays committed and valid either way",
    "_mi_os_decommit": "trimming/purging: a failed decommit leaves the memory committed, which is always safe",
    "mi_os_decommit_ex": "purge: the needs_recommit out-parameter, not the result, drives the commit state",
    "_mi_os_purge": "result says whether a recommit is needed; callers that ignore it treat the range as still committed",
    "_mi_os_purge_ex": "as _mi_os_purge",
    "_mi_os_protect": "MI_SECURE guard pages: best effort, a missing guard page weakens hardening but not correctness",
    "_mi_os_unprotect": "as _mi_os_protect",
    "mi_segment_purge": "updates the commit/purge masks itself; the boolean only reports whether memory was decommitted",
    "_mi_prim_decommit": "wrapped by _mi_os_decommit which reports the error",
    "_mi_prim_reset": "wrapped by _mi_os_reset which reports the error",
    "_mi_prim_protect": "wrapped by _mi_os_protect which reports the error",
    "_mi_prim_free": "wrapped by mi_os_prim_free which warns",
}
SITE_EXCEPTIONS = {
    ("mi_os_prim_alloc_aligned", "_mi_os_commit"): "reachable only when the primitive layer has no partial free (!has_partial_free); prim/unix sets has_partial_free",
    ("mi_segment_alloc", "mi_segment_ensure_committed"): "MI_SECURE only: commits the page that becomes a guard page; failure only weakens the guard",
}


def live(f, node):
    cfg = f.cfg
    if not hasattr(f, "_live"):
        f._live = cfg.reach([cfg.entry])
    p = cfg.pt(node)
    return p is not None and p in f._live


def r1(ctx, prog):
    R = ctx.rule("C07.R1", "no failure result of a fallible OS/arena/segment/page function is dropped: every call's result is a branch condition, is returned, "
                           "or is stored in a variable/field that is tested or returned")
    n = 0
    for name in FALLIBLE:
        if name not in prog.fns and name not in prog.protos:
            continue
        for f in prog.fns.values():
            for c in f.calls(name):
                if not live(f, c):
                    continue
                n += 1
                ok, how = rl.value_checked(f, c)
                if not ok and (f.name, name) in SITE_EXCEPTIONS:
                    ctx.ok(R, f.where(c), "%s result ignored — listed exception: %s" % (name, SITE_EXCEPTIONS[(f.name, name)]))
                    continue
                ctx.check(R, ok, f.where(c), "result of %s is %s" % (name, how), key="C07.R1:%s:%s" % (f.name, name))
    # the exception table must stay honest: each best-effort callee still exists and returns a value
    for name, why in BEST_EFFORT.items():
        if name in prog.fns:
            ctx.ok(R, prog.fn(name).where(), "best-effort by contract (results may be ignored): %s" % why)
    if n < 60:
        ctx.broke("C07.R1: only %d call sites of fallible functions found (>= 60 confirmed on the pinned tree)" % n)
    ctx.floor(R, 60)


PTR_ALLOCATORS = ("_mi_os_alloc", "_mi_os_alloc_aligned", "_mi_os_alloc_aligned_at_offset", "_mi_os_alloc_huge_os_pages", "mi_os_prim_alloc", "mi_os_prim_alloc_aligned",
                  "_mi_arena_alloc", "_mi_arena_alloc_aligned", "mi_arena_try_alloc", "mi_arena_try_alloc_at", "mi_arena_try_alloc_at_id",
                  "mi_segment_os_alloc", "mi_segment_alloc", "mi_segment_reclaim_or_alloc", "mi_segment_try_reclaim", "mi_segments_page_alloc", "mi_segment_huge_page_alloc",
                  "_mi_segment_page_alloc", "mi_segments_page_find_and_allocate", "mi_segment_span_allocate", "mi_page_fresh", "mi_page_fresh_alloc", "mi_find_page",
                  "mi_find_free_page", "mi_large_huge_page_alloc", "mi_page_queue_find_free_ex", "mi_thread_data_zalloc", "_mi_arena_meta_zalloc", "mi_segment_map_index_of",
                  "mi_heap_malloc", "mi_heap_zalloc", "_mi_heap_malloc_zero", "mi_heap_malloc_aligned_at", "_mi_malloc_generic", "mi_rezalloc", "mi_heap_malloc_zero_aligned_at")


def r2(ctx, prog):
    R = ctx.rule("C07.R2", "a pointer produced by a fallible allocator is dereferenced (->, *, []) only on a path that established it is non-NULL")
    n = 0
    for f in prog.fns.values():
        seen_vars = {}
        for c in f.calls(PTR_ALLOCATORS):
            if not live(f, c):
                continue
            u = rl.result_use(f, c)
            d = None
            if isinstance(u, tuple) and u[0] == "init":
                d = u[1]
            elif isinstance(u, tuple) and u[0] == "assign":
                d = rl.var_of(f, u[1])
            if d is None or d in f.pids:
                continue
            seen_vars.setdefault(d, []).append(c)
        for d, calls in seen_vars.items():
            cfg = f.cfg
            derefs = []
            for nn in f.nodes:
                i = nn["i"]
                if nn["k"] == "MemberExpr" and nn["arrow"] and f.is_ref(nn["c"][0], d):
                    derefs.append(i)
                elif nn["k"] == "UnaryOperator" and nn["op"] == "*" and f.is_ref(nn["c"][0], d):
                    derefs.append(i)
                elif nn["k"] == "ArraySubscriptExpr" and f.is_ref(nn["c"][0], d):
                    derefs.append(i)
            n += 1
            bad = []
            for x in derefs:
                if not live(f, x):
                    continue
                # from each allocation, can the dereference be reached without a non-NULL fact on d (or a re-definition)?
                def nn_edge(lab, p, q):
                    return not any(rl.fact_nonnull(f, e, pol, lambda j: (f.nodes[j]["k"] == "DeclRefExpr" and f.nodes[j]["d"] == d) or
                                                   (f.nodes[j]["k"] == "BinaryOperator" and f.nodes[j]["op"] == "=" and f.is_ref(f.nodes[j]["c"][0], d)))
                                   for e, pol in cfg.facts(lab))
                def redefined(e):
                    m = f.nodes[e]
                    return m["k"] == "BinaryOperator" and m["op"] == "=" and f.is_ref(m["c"][0], d) and e not in [f.parent.get(f.parent.get(c)) for c in calls] and \
                        not any(rl.is_call(f, y, PTR_ALLOCATORS) for y in f.walk(m["c"][1]))
                seen = cfg.reach([cfg.after(c) for c in calls], avoid=redefined, edge_ok=nn_edge)
                if cfg.pt(x) in seen:
                    bad.append(f.loc(x))
            nm = next((nn["n"] for nn in f.nodes if nn["k"] == "DeclRefExpr" and nn["d"] == d), "?")
            ctx.check(R, not bad, f.where(calls[0]), "`%s` (from %s) is dereferenced only after a NULL test" % (nm, f.nodes[calls[0]]["callee"]),
                      key="C07.R2:%s:%s" % (f.name, nm), witness=sorted(set(bad)))
    ctx.floor(R, 25)


def r3(ctx, prog):
    R = ctx.rule("C07.R3", "commit state is recorded only after the OS said yes, and undone when it said no")
    shared.segment_commit_after_success(ctx, R, prog)
    g = prog.fn("mi_segment_span_allocate")
    for a, l, rhs, op in g.field_stores("is_committed"):
        if rhs is not None and g.cv(rhs) == 1:
            w = g.cfg.guarded(g.cfg.pt(a), lambda e, pol: isinstance(e, int) and pol and rl.is_call(g, g.strip(e), "mi_segment_ensure_committed"))
            ctx.check(R, w is None, g.where(a), "page->is_committed = true only after mi_segment_ensure_committed succeeded", key="C07.R3:span:guard", witness=w)
    for a, l, rhs, op in g.stores():
        if rl.field_is(g, l, "slice_count") or rl.field_is(g, l, "block_size") or rl.field_is(g, l, "slice_offset"):
            w = g.cfg.guarded(g.cfg.pt(a), lambda e, pol: isinstance(e, int) and pol and rl.is_call(g, g.strip(e), "mi_segment_ensure_committed"))
            ctx.check(R, w is None, g.where(a), "slice map is changed only after the commit succeeded", key="C07.R3:span:slices", witness=w)
    h = prog.fn("mi_arena_try_alloc_at")
    cfg = h.cfg
    fails = [q for p, q, e, pol in rl.edges_with_fact(h, lambda e, pol: isinstance(e, int) and (not pol) and rl.is_call(h, h.strip(e), ("_mi_os_commit", "_mi_os_commit_ex")))]
    if not fails:
        ctx.fail(R, h.where(), "no failure edge of the commit in mi_arena_try_alloc_at", key="C07.R3:mi_arena_try_alloc_at:edge")
    else:
        w = None
        for q in fails:
            w = w or cfg.must_pass([q], cfg.exit_points(), rl.store_field_const(h, "initially_committed", 0))
        ctx.check(R, w is None, h.where(), "failed commit: memid->initially_committed = false on every path", key="C07.R3:mi_arena_try_alloc_at:flag", witness=w)
        claims = [c for c in h.calls("_mi_bitmap_claim_across") if rl.mentions_field_x(h, rl.arg(h, c, 0), "blocks_committed")]
        def undo(e):
            if not rl.is_call(h, e, "_mi_bitmap_unclaim_across") or not rl.mentions_field_x(h, h.nodes[e]["args"][0], "blocks_committed"):
                return False
            return any(h.text(h.nodes[e]["args"][2]) == h.text(h.nodes[c]["args"][2]) and h.text(h.nodes[e]["args"][3]) == h.text(h.nodes[c]["args"][3]) for c in claims)
        w = None
        for q in fails:
            w = w or cfg.must_pass([q], cfg.exit_points(), undo)
        ctx.check(R, w is None and bool(claims), h.where(), "failed commit: the blocks_committed bits claimed before the attempt are released again (same count and index), "
                  "otherwise a later claim of the range is handed out without a commit", key="C07.R3:mi_arena_try_alloc_at:undo", witness=w)
    shared.arena_commit_whole_range(ctx, R, prog)
    k = prog.fn("_mi_arena_free")
    ok = any(rl.is_call(k, c, "_mi_bitmap_unclaim_across") and k.mentions_field(rl.arg(k, c, 0), "blocks_committed") for c in k.calls("_mi_bitmap_unclaim_across"))
    ctx.check(R, ok, k.where(), "_mi_arena_free clears blocks_committed for a range that is not fully committed", key="C07.R3:arena_free")
    ctx.floor(R, 9)


def r4(ctx, prog):
    R = ctx.rule("C07.R4", "a partially built object is released when a later step fails")
    f = prog.fn("mi_segment_os_alloc")
    cfg = f.cfg
    fails = [q for p, q, e, pol in rl.edges_with_fact(f, lambda e, pol: isinstance(e, int) and (not pol) and rl.is_call(f, f.strip(e), ("_mi_os_commit", "_mi_os_commit_ex")))]
    ok = bool(fails)
    w = None
    for q in fails:
        w = w or cfg.must_pass([q], cfg.exit_points(), rl.call_to("_mi_arena_free")(f))
    ctx.check(R, ok and w is None, f.where(), "metadata/huge commit failure releases the segment memory with _mi_arena_free on every path", key="C07.R4:segment_os_alloc", witness=w)
    for q in fails:
        ctx.check(R, rl.returns_only(f, q, 0), f.where(), "and returns NULL", key="C07.R4:segment_os_alloc:null")
    g = prog.fn("mi_segments_page_find_and_allocate")
    cfg = g.cfg
    pages = [dd["d"] for _, dd in rl.var_init_from(g, lambda j: rl.is_call(g, j, "mi_segment_span_allocate"))]
    if not pages:
        ctx.broke("C07.R4: mi_segments_page_find_and_allocate: result of mi_segment_span_allocate not bound to a local")
    else:
        hit = [q for p, q, e, pol in rl.edges_with_fact(g, lambda e, pol: isinstance(e, int) and rl.fact_null(g, e, pol, rl.is_var(g, pages[0])))]
        ok = bool(hit) and all(cfg.must_pass([q], cfg.exit_points(), rl.call_to("mi_segment_span_free_coalesce")(g)) is None for q in hit)
        ctx.check(R, ok, g.where(), "commit failure in span allocation puts the span back (mi_segment_span_free_coalesce) before returning NULL", key="C07.R4:find_and_allocate")
    for fname, freef in (("mi_reserve_os_memory_ex", ("_mi_os_free_ex", "_mi_os_free")), ("mi_reserve_huge_os_pages_at_ex", ("_mi_os_free", "_mi_os_free_ex"))):
        h = prog.fn(fname)
        cfg = h.cfg
        hit = [q for p, q, e, pol in rl.edges_with_fact(h, lambda e, pol: isinstance(e, int) and (not pol) and rl.is_call(h, h.strip(e), ("mi_manage_os_memory_ex2", "mi_manage_os_memory_ex")))]
        ok = bool(hit) and all(cfg.must_pass([q], cfg.exit_points(), rl.call_to(freef)(h)) is None for q in hit)
        ctx.check(R, ok, h.where(), "failed arena registration frees the reserved OS memory", key="C07.R4:%s" % fname)
    m = prog.fn("mi_segment_map_index_of")
    cfg = m.cfg
    hit = [q for p, q, e, pol in rl.edges_with_fact(m, lambda e, pol: isinstance(e, int) and (not pol) and any(m.nodes[x]["k"] == "AtomicExpr" and m.nodes[x]["aop"].startswith("cas") for x in m.walk(e)))]
    ok = bool(hit) and all(cfg.must_pass([q], cfg.exit_points(), rl.call_to(("_mi_os_free", "_mi_os_free_ex"))(m)) is None for q in hit)
    ctx.check(R, ok, m.where(), "the loser of the segment-map CAS frees its part", key="C07.R4:segment_map")
    a = prog.fn("mi_manage_os_memory_ex2")
    metas = [dd["d"] for _, dd in rl.var_init_from(a, lambda j: rl.is_call(a, j, "_mi_arena_meta_zalloc"))]
    ctx.check(R, bool(metas), a.where(), "arena metadata allocation is bound to a local that is tested (R2)", key="C07.R4:arena_meta")
    ctx.floor(R, 7)


def r5(ctx, prog):
    R = ctx.rule("C07.R5", "slow path: on a NULL page exactly one forced collect and one retry; on the second NULL an ENOMEM report and `return NULL`, with no use of the page")
    f = prog.fn("_mi_malloc_generic")
    cfg = f.cfg
    finds = list(f.calls("mi_find_page"))
    ctx.check(R, len(finds) == 2, f.where(), "mi_find_page is called twice (first try, retry)", key="C07.R5:two")
    if len(finds) == 2:
        a0 = [rl.canon(f, a) for a in f.nodes[finds[0]]["args"]]
        a1 = [rl.canon(f, a) for a in f.nodes[finds[1]]["args"]]
        ctx.check(R, a0 == a1, f.where(finds[1]), "the retry repeats the original request: mi_find_page(%s) vs mi_find_page(%s) — the caller's layout assumptions (e.g. a dedicated "
                  "over-aligned huge page) depend on every argument" % (", ".join(a0), ", ".join(a1)), key="C07.R5:same_request")
    pages = {rl.var_of(f, x) for x in []}
    pd = None
    for c in finds:
        u = rl.result_use(f, c)
        if isinstance(u, tuple):
            pd = u[1] if u[0] == "init" else rl.var_of(f, u[1])
    if pd is None or len(finds) < 2:
        ctx.broke("C07.R5: page variable not found")
        return
    second = finds[1] if cfg.reaches(cfg.after(finds[0]), cfg.pt(finds[1])) else finds[0]
    w = cfg.guarded(cfg.pt(second), lambda e, pol: isinstance(e, int) and rl.fact_null(f, e, pol, rl.is_var(f, pd)))
    ctx.check(R, w is None, f.where(second), "the retry happens only on the `page == NULL` edge", key="C07.R5:retry_guard", witness=w)
    w = rl.precedes(f, lambda e: rl.is_call(f, e, "mi_heap_collect") and f.cv(f.nodes[e]["args"][1]) == 1, second, starts=[cfg.after(finds[0] if second == finds[1] else finds[1])])
    ctx.check(R, w is None, f.where(second), "a forced mi_heap_collect precedes the retry", key="C07.R5:collect", witness=w)
    # after the retry: NULL edge -> error message ENOMEM and return NULL
    enomem = prog.const("ENOMEM")
    hit = [q for p, q, e, pol in rl.edges_with_fact(f, lambda e, pol: isinstance(e, int) and rl.fact_null(f, e, pol, rl.is_var(f, pd)))
           if cfg.reaches(cfg.after(second), p)]
    ok = bool(hit)
    for q in hit:
        w1 = cfg.must_pass([q], cfg.exit_points(), lambda e: rl.is_call(f, e, "_mi_error_message") and f.cv(f.nodes[e]["args"][0]) == enomem)
        uses = [cfg.elem_at(p) for p in cfg.reach([q]) if cfg.elem_at(p) is not None and f.nodes[cfg.elem_at(p)]["k"] == "MemberExpr" and f.nodes[cfg.elem_at(p)]["arrow"]
                and f.is_ref(f.nodes[cfg.elem_at(p)]["c"][0], pd)]
        ok = ok and w1 is None and rl.returns_only(f, q, 0) and not uses
    ctx.check(R, ok, f.where(), "second NULL: _mi_error_message(ENOMEM, ..) then return NULL, page is not used", key="C07.R5:enomem")
    ctx.floor(R, 4)


def r6(ctx, prog):
    R = ctx.rule("C07.R6", "\"committed\" is never assumed: a huge segment (whose commit mask cannot describe a partial commit) gets a full commit mask only from "
                           "memory that came committed or was committed successfully; ensure_committed answers true without committing only for a full mask")
    f = prog.fn("mi_segment_os_alloc")
    cfg = f.cfg
    req = f.param_id(0)
    stores = [a for a, l, rhs, op in f.field_stores("commit_mask")]
    if not stores:
        raise AnalysisBroken("C07.R6: mi_segment_os_alloc no longer stores segment->commit_mask")
    def not_huge(lab, p, q):
        # exclude the paths on which required == 0 (normal segments: partial commit masks are fine)
        for e, pol in cfg.facts(lab):
            c = rl.norm_cmp(f, e, pol)
            if c is not None and rl.var_of(f, c[1]) == req and f.cv(c[2]) == 0 and c[0] in ("==", "<="):
                return False
            if rl.fact_null(f, e, pol, rl.is_var(f, req)):
                return False
        return True
    for s in stores:
        w = cfg.must_pass([cfg.entry], [cfg.pt(s)], rl.call_to("mi_commit_mask_create_full")(f), edge_ok=not_huge)
        ctx.check(R, w is None, f.where(s), "for a huge segment (required > 0) the stored commit mask is the full mask on every path "
                  "(a partial mask would make mi_segment_ensure_committed/mi_segment_commit answer `true` for uncommitted memory)", key="C07.R6:mi_segment_commit", witness=w)
    for c in f.calls("mi_commit_mask_create_full"):
        def committed(e, pol):
            if not isinstance(e, int):
                return False
            if pol and rl.field_is(f, e, "initially_committed"):
                return True
            return pol and rl.is_call(f, f.strip(e), ("_mi_os_commit", "_mi_os_commit_ex"))
        w = cfg.guarded(cfg.pt(c), committed)
        ctx.check(R, w is None, f.where(c), "the full mask is only claimed for memory that came committed or was just committed successfully", key="C07.R6:full_mask", witness=w)
    # range agreement: the commit that justifies a full mask covers the whole segment (pointer and size of the allocation itself)
    allocs = [c for c in f.calls("_mi_arena_alloc_aligned")]
    if len(allocs) == 1:
        size_d = rl.var_of(f, rl.arg(f, allocs[0], 0))
        seg_d = None
        u = rl.result_use(f, allocs[0])
        if isinstance(u, tuple) and u[0] == "init":
            seg_d = u[1]
        for c in f.calls("mi_commit_mask_create_full"):
            for q in [x for x in f.calls(("_mi_os_commit", "_mi_os_commit_ex"))]:
                # the commit whose success edge guards this full mask
                if cfg.guarded(cfg.pt(c), lambda e, pol, q=q: isinstance(e, int) and pol and f.strip(e) == q) is None:
                    a0, a1 = rl.arg(f, q, 0), rl.arg(f, q, 1)
                    ok = rl.var_of(f, a0) == seg_d and rl.var_of(f, a1) == size_d and size_d is not None
                    ctx.check(R, ok, f.where(q), "the commit that justifies the full mask covers the whole segment: _mi_os_commit(%s, %s) must be (segment, segment_size) of the allocation"
                              % (f.text(a0), f.text(a1)), key="C07.R6:full_range")
    h2 = prog.fn("mi_segment_commit")
    cms = list(h2.calls("mi_segment_commit_mask"))
    if len(cms) == 1:
        outs = []
        for a in h2.nodes[cms[0]]["args"]:
            j = h2.strip(a)
            if h2.nodes[j]["k"] == "UnaryOperator" and h2.nodes[j]["op"] == "&":
                outs.append(rl.var_of(h2, h2.nodes[j]["c"][0]))
        for q in h2.calls(("_mi_os_commit", "_mi_os_commit_ex")):
            ok = rl.var_of(h2, rl.arg(h2, q, 0)) in outs and rl.var_of(h2, rl.arg(h2, q, 1)) in outs
            ctx.check(R, ok, h2.where(q), "the committed range (start, full_size) is the one mi_segment_commit_mask computed for the recorded mask", key="C07.R6:commit_range")
        for c in h2.calls("mi_commit_mask_set"):
            j = h2.strip(rl.arg(h2, c, 1))
            ok = h2.nodes[j]["k"] == "UnaryOperator" and rl.var_of(h2, h2.nodes[j]["c"][0]) in outs
            ctx.check(R, ok, h2.where(c), "the recorded mask is the one computed together with that range", key="C07.R6:commit_mask")
    g = prog.fn("mi_segment_alloc")
    ok = False
    for a, l, rhs, op in g.field_stores("kind"):
        if rhs is not None:
            j = g.strip(rhs)
            if g.nodes[j]["k"] == "ConditionalOperator" and g.mentions_decl(g.nodes[j]["cond"], g.param_id(0)):
                ok = True
    ctx.check(R, ok, g.where(), "segment->kind is HUGE exactly when required > 0 (the quantity the commit rule keys on)", key="C07.R6:kind")
    h = prog.fn("mi_segment_ensure_committed")
    cfg = h.cfg
    for r in h.all(kind="ReturnStmt"):
        if h.cv(h.nodes[r].get("val", -1)) == 1:
            w = cfg.guarded(cfg.pt(r), lambda e, pol: isinstance(e, int) and pol and rl.is_call(h, h.strip(e), "mi_commit_mask_is_full"))
            ctx.check(R, w is None, h.where(r), "`return true` without committing only when the commit mask is full", key="C07.R6:ensure", witness=w)
    ctx.check(R, any(True for _ in h.calls("mi_segment_commit")), h.where(), "otherwise the answer is mi_segment_commit's", key="C07.R6:ensure:delegate")
    ctx.floor(R, 8)


def run(ctx):
    ctx.explanation = ("Static decision of C07's code-shaped necessary conditions: result discipline at every live call site of the frozen fallible set (with a "
                       "one-reason-per-symbol exception table), NULL-dominance of every dereference of a fallible pointer result, success-edge guards and "
                       "failure-edge undo of commit state, release of partially built objects, the retry-once shape of the slow path, and the full-commit "
                       "rule for huge segments. NOT decided: behaviour for every position of an injected fault sequence.")
    for c in (["REL"] if ctx.tier == "quick" else ["REL", "SEC", "DBG"]):
        prog = ctx.prog(c)
        n0 = len(ctx.instances)
        r1(ctx, prog); r2(ctx, prog); r3(ctx, prog); r4(ctx, prog); r5(ctx, prog); r6(ctx, prog)
        if c != "REL":
            for i in ctx.instances[n0:]:
                i["site"] += " [%s]" % c
                if not i["ok"]:
                    i["key"] += ":" + c
