"""C13 — guarantees under every option; purging never touches live data (DESIGN §4 C13). Level: other.

Only the second sentence has a code shape; "re-run C01–C05/C12 under every option combination" is a run-time matrix and is NOT decided.
Decided: rounding orientation of purge vs commit (R1), purge ⊆ commit and cleared on commit (R2), commit before use (R3, = C07.R3),
arena purge is bracketed by an in-use claim (R4), live huge blocks are only reset (R5).
"""
import rl, shared
from facts import AnalysisBroken

LEVEL = "other"


def r1(ctx, prog):
    R = ctx.rule("C13.R1", "rounding orientation: under `conservative` the range shrinks (start align_up, end align_down), otherwise it grows; purge/decommit/reset/protect "
                           "callers pass conservative=true, commit passes false — a swap would purge a neighbour's live slice")
    f = prog.fn("mi_segment_commit_mask")
    cfg = f.cfg
    cons = f.param_id(1)
    starts = [dd["d"] for _, dd in rl.local_decl(f, lambda dd: dd["n"] == "start" and dd["t"] == "size_t")]
    ends = [dd["d"] for _, dd in rl.local_decl(f, lambda dd: dd["n"] == "end" and dd["t"] == "size_t")]
    if not starts or not ends:
        # identify by use: the two locals assigned from _mi_align_up/_mi_align_down
        cands = {}
        for a, lhs, rhs, op in f.stores():
            d = rl.var_of(f, lhs)
            if d is not None and rhs is not None and rl.is_call(f, f.strip(rhs), ("_mi_align_up", "_mi_align_down")):
                cands.setdefault(d, []).append(a)
        if len(cands) != 2:
            raise AnalysisBroken("C13.R1: start/end locals of mi_segment_commit_mask not found")
    n = 0
    for a, lhs, rhs, op in f.stores():
        d = rl.var_of(f, lhs)
        if d is None or rhs is None or not rl.is_call(f, f.strip(rhs), ("_mi_align_up", "_mi_align_down")):
            continue
        cal = f.nodes[f.strip(rhs)]["callee"]
        is_start = "+" not in rl.canon(f, f.nodes[f.strip(rhs)]["args"][0], expand=True)  # start rounds pstart, end rounds pstart+size (temporaries expanded)
        on_cons = cfg.guarded(cfg.pt(a), lambda e, pol: isinstance(e, int) and pol and rl.var_of(f, e) == cons) is None
        on_lib = cfg.guarded(cfg.pt(a), lambda e, pol: isinstance(e, int) and (not pol) and rl.var_of(f, e) == cons) is None
        want = ("_mi_align_up" if is_start else "_mi_align_down") if on_cons else ("_mi_align_down" if is_start else "_mi_align_up") if on_lib else None
        n += 1
        ctx.check(R, want is not None and cal == want, f.where(a), "%s of the %s range uses %s (%s)" % ("start" if is_start else "end", "conservative" if on_cons else "liberal" if on_lib else "?", cal, "expected " + str(want)),
                  key="C13.R1:segment:%s:%s" % ("start" if is_start else "end", "cons" if on_cons else "lib"))
    if n != 4:
        ctx.broke("C13.R1: expected 4 rounding stores in mi_segment_commit_mask, found %d" % n)
    g = prog.fn("mi_os_page_align_areax")
    cons = g.param_id(0)
    for _, dd in rl.local_decl(g, lambda dd: "init" in dd and g.nodes[g.strip(dd["init"])]["k"] == "ConditionalOperator"):
        j = g.strip(dd["init"])
        nn = g.nodes[j]
        if rl.var_of(g, nn["cond"]) != cons:
            continue
        t, e = g.strip(nn["then"]), g.strip(nn["else"])
        is_start = "+" not in rl.canon(g, t, expand=True)
        tc, ec = g.nodes[t].get("callee"), g.nodes[e].get("callee")
        want = ("mi_align_up_ptr", "mi_align_down_ptr") if is_start else ("mi_align_down_ptr", "mi_align_up_ptr")
        ctx.check(R, (tc, ec) == want, g.where(j), "OS page alignment of %s: conservative ? %s : %s" % ("start" if is_start else "end", tc, ec), key="C13.R1:os:%s" % ("start" if is_start else "end"))
    # callers pass the right constant
    for fname, callee, k, want in (("mi_segment_purge", "mi_segment_commit_mask", 1, 1), ("mi_segment_schedule_purge", "mi_segment_commit_mask", 1, 1), ("mi_segment_commit", "mi_segment_commit_mask", 1, 0)):
        h = prog.fn(fname)
        for c in h.calls(callee):
            ctx.check(R, h.cv(rl.arg(h, c, k)) == want, h.where(c), "%s asks for a %s range" % (fname, "conservative" if want else "liberal"), key="C13.R1:caller:%s" % fname)
    for fname, want in (("_mi_os_commit_ex", 0), ("mi_os_decommit_ex", 1), ("_mi_os_reset", 1), ("_mi_os_protectx", 1)):
        if not prog.has(fname):
            continue
        h = prog.fn(fname)
        cs = list(h.calls(("mi_os_page_align_area_conservative", "_mi_os_page_align_area_conservative", "mi_os_page_align_areax")))
        for c in cs:
            cal = h.nodes[c]["callee"]
            v = 1 if "conservative" in cal else h.cv(rl.arg(h, c, 0))
            ctx.check(R, v == want, h.where(c), "%s page-aligns %s" % (fname, "conservatively" if want else "liberally"), key="C13.R1:oscaller:%s" % fname)
    ctx.floor(R, 12)


def r2(ctx, prog):
    R = ctx.rule("C13.R2", "purge mask ⊆ commit mask: what is scheduled is first intersected with commit_mask; a successful commit clears the range from purge_mask; "
                           "a freed span schedules exactly itself")
    f = prog.fn("mi_segment_schedule_purge")
    for c in f.calls("mi_commit_mask_set"):
        if not f.mentions_field(rl.arg(f, c, 0), "purge_mask"):
            continue
        src = f.strip(rl.arg(f, c, 1))
        d = rl.var_of(f, f.nodes[src]["c"][0]) if f.nodes[src]["k"] == "UnaryOperator" else None
        ok = False
        for x in f.calls("mi_commit_mask_create_intersect"):
            a = f.nodes[x]["args"]
            out = f.strip(a[2])
            if f.nodes[out]["k"] == "UnaryOperator" and rl.var_of(f, f.nodes[out]["c"][0]) == d and f.mentions_field(a[0], "commit_mask"):
                ok = rl.precedes(f, lambda e, x=x: e == x, c) is None
        ctx.check(R, ok, f.where(c), "purge_mask |= (commit_mask ∩ mask): only committed memory is ever scheduled", key="C13.R2:intersect")
    g = prog.fn("mi_segment_commit")
    clears = [c for c in g.calls("mi_commit_mask_clear") if g.mentions_field(rl.arg(g, c, 0), "purge_mask")]
    ctx.check(R, len(clears) == 1, g.where(), "mi_segment_commit clears the range from purge_mask", key="C13.R2:clear")
    for r in g.all(kind="ReturnStmt"):
        if g.cv(g.nodes[r].get("val", -1)) == 1 and clears:
            # success returns after the mask was computed pass the clear (the early `empty mask` return excepted)
            w = rl.precedes(g, lambda e: e in clears, r, edge_ok=lambda lab, p, q: not any(isinstance(e, int) and ((pol and rl.is_call(g, g.strip(e), "mi_commit_mask_is_empty")) or
                                                                                                                rl.establishes(g, e, pol, "==", lambda j: True, rl.is_const(g, lambda v: v == 0))) for e, pol in g.cfg.facts(lab)))
            ctx.check(R, w is None, g.where(r), "every successful commit path clears the committed range from purge_mask (a later purge must not decommit memory that is in use again)", key="C13.R2:clear:path", witness=w)
    h = prog.fn("mi_segment_purge")
    for c in h.calls(("_mi_os_purge", "_mi_os_purge_ex")):
        w = h.cfg.guarded(h.cfg.pt(c), rl.fact_call_true(h, "mi_commit_mask_any_set"))
        ctx.check(R, w is None, h.where(c), "the OS purge runs only if part of the range is committed", key="C13.R2:purge:any", witness=w)
        outs = []
        for cm in h.calls("mi_segment_commit_mask"):
            for a in h.nodes[cm]["args"]:
                j = h.strip(a)
                if h.nodes[j]["k"] == "UnaryOperator" and h.nodes[j]["op"] == "&":
                    outs.append(rl.var_of(h, h.nodes[j]["c"][0]))
        ok = rl.var_of(h, rl.arg(h, c, 0)) in outs and rl.var_of(h, rl.arg(h, c, 1)) in outs
        ctx.check(R, ok, h.where(c), "the purged range is the conservative (start, full_size) computed for the mask", key="C13.R2:purge:range")
    k = prog.fn("mi_segment_span_free")
    for c in k.calls("mi_segment_schedule_purge"):
        a1, a2 = rl.arg(k, c, 1), rl.arg(k, c, 2)
        ok = rl.is_call(k, k.strip(a1), "mi_slice_start") and rl.canon(k, a2, expand=True).replace(" ", "") in ("($2*65536)", "(65536*$2)")
        # slice_count is re-assigned (0 -> 1) before; accept the local/param itself times the slice size
        ok = ok or (rl.is_call(k, k.strip(a1), "mi_slice_start") and rl.canon(k, a2, expand=True).replace(" ", "") in ("($2*%d)" % prog.const("MI_SEGMENT_SLICE_SIZE"), "(%d*$2)" % prog.const("MI_SEGMENT_SLICE_SIZE")))
        ctx.check(R, ok, k.where(c), "a freed span schedules exactly [slice_start, slice_count*SLICE_SIZE)", key="C13.R2:span")
    ctx.floor(R, 6)


def r3(ctx, prog):
    R = ctx.rule("C13.R3", "commit before use: a span's slices are marked allocated and the page is_committed only after mi_segment_ensure_committed succeeded (see C07.R3)")
    g = prog.fn("mi_segment_span_allocate")
    n = 0
    for a, l, rhs, op in g.stores():
        if rl.field_is(g, l, "is_committed") or rl.field_is(g, l, "block_size") or rl.field_is(g, l, "slice_count"):
            n += 1
            w = g.cfg.guarded(g.cfg.pt(a), lambda e, pol: isinstance(e, int) and pol and rl.is_call(g, g.strip(e), "mi_segment_ensure_committed"))
            ctx.check(R, w is None, g.where(a), "%s only after the commit succeeded" % g.text(a)[:50], key="C13.R3:span", witness=w)
    ctx.floor(R, 4)


def r4(ctx, prog):
    R = ctx.rule("C13.R4", "arena purge is bracketed: a range is purged only between a successful claim of its blocks_inuse bits and their release; allocation clears blocks_purge "
                           "for what it claims; free schedules the purge before it releases blocks_inuse")
    f = prog.fn("mi_arena_try_purge")
    cfg = f.cfg
    for c in f.calls("mi_arena_purge_range"):
        claimed = lambda e, pol: isinstance(e, int) and pol and rl.is_call(f, f.strip(e), "_mi_bitmap_try_claim") and f.mentions_field(f.nodes[f.strip(e)]["args"][0], "blocks_inuse")
        # the claim loop exits either by success (break) or with bitlen == 0; the purge is guarded by bitlen > 0
        w1 = cfg.guarded(cfg.pt(c), lambda e, pol: isinstance(e, int) and rl.norm_cmp(f, e, pol) is not None and rl.norm_cmp(f, e, pol)[0] == ">" and f.cv(rl.norm_cmp(f, e, pol)[2]) == 0)
        ctx.check(R, w1 is None, f.where(c), "purge only when a non-empty range was claimed (bitlen > 0)", key="C13.R4:try_purge:guard", witness=w1)
        w = rl.followed_by(f, c, lambda e: rl.is_call(f, e, "_mi_bitmap_unclaim") and f.mentions_field(f.nodes[e]["args"][0], "blocks_inuse"))
        ctx.check(R, w is None, f.where(c), "the temporary in-use claim is released after the purge on every path", key="C13.R4:try_purge:release", witness=w)
        w = rl.precedes(f, lambda e: rl.is_call(f, e, "_mi_bitmap_try_claim") and f.mentions_field(f.nodes[e]["args"][0], "blocks_inuse"), c)
        ctx.check(R, w is None, f.where(c), "a claim attempt on blocks_inuse precedes the purge", key="C13.R4:try_purge:claim", witness=w)
        # claim, purge and release use the same (count, index)
        cl = [x for x in f.calls("_mi_bitmap_try_claim")]
        un = [x for x in f.calls("_mi_bitmap_unclaim") if f.mentions_field(f.nodes[x]["args"][0], "blocks_inuse")]
        ok = bool(cl) and bool(un) and f.text(f.nodes[cl[0]]["args"][2]) == f.text(f.nodes[un[0]]["args"][2]) and f.text(f.nodes[cl[0]]["args"][3]) == f.text(f.nodes[un[0]]["args"][3])
        ctx.check(R, ok, f.where(c), "claim and release name the same (count, index)", key="C13.R4:try_purge:same")
    # the loop that shrinks bitlen: exits with bitlen>0 only through the successful claim
    g = prog.fn("mi_arena_try_alloc_at")
    cs = [c for c in g.calls("_mi_bitmap_unclaim_across") if g.mentions_field(rl.arg(g, c, 0), "blocks_purge")]
    ctx.check(R, len(cs) == 1, g.where(), "allocation removes its blocks from blocks_purge", key="C13.R4:alloc:clear")
    for c in cs:
        claim = rl.calls_doing(prog, g, ("_mi_bitmap_try_find_from_claim_across",))
        w = rl.precedes(g, lambda e: e in claim, c)
        ctx.check(R, w is None, g.where(c), "after the blocks were claimed in blocks_inuse", key="C13.R4:alloc:order", witness=w)
    h = prog.fn("_mi_arena_free")
    rel = [c for c in h.calls("_mi_bitmap_unclaim_across") if h.mentions_field(rl.arg(h, c, 0), "blocks_inuse")]
    sch = list(h.calls("mi_arena_schedule_purge"))
    ctx.check(R, len(rel) == 1 and len(sch) == 1, h.where(), "one purge scheduling, one release of blocks_inuse", key="C13.R4:free:shape")
    if rel and sch:
        later = h.cfg.reaches(h.cfg.after(rel[0]), h.cfg.pt(sch[0]))
        ctx.check(R, not later, h.where(sch[0]), "the purge is scheduled before blocks_inuse is released (never after: another thread may already own the blocks)", key="C13.R4:free:order")
    k = prog.fn("mi_arena_purge")
    for c in k.calls("_mi_os_purge"):
        w = k.cfg.guarded(k.cfg.pt(c), rl.fact_call_true(k, "_mi_bitmap_is_claimed_across"))
        ctx.check(R, w is None, k.where(c), "a reset-capable purge only when the whole range is committed", key="C13.R4:purge:committed", witness=w)
    for c in k.calls("_mi_os_purge_ex"):
        ctx.check(R, k.cv(rl.arg(k, c, 2)) == 0, k.where(c), "partially committed range: reset is not allowed", key="C13.R4:purge:noreset")
    ctx.floor(R, 10)


def r5(ctx, prog):
    R = ctx.rule("C13.R5", "a live huge block freed by another thread is only *reset* (contents may be discarded, memory stays accessible) — never decommitted or purged")
    f = prog.fn("_mi_segment_huge_page_reset")
    reach = prog.reachable([f.name], cut={"_mi_error_message", "_mi_warning_message", "_mi_assert_fail", "mi_usable_size"})
    bad = sorted(reach & {"_mi_os_decommit", "mi_os_decommit_ex", "_mi_os_purge", "_mi_os_purge_ex", "mi_segment_purge", "mi_segment_schedule_purge", "_mi_prim_decommit"})
    ctx.check(R, not bad and any(True for _ in f.calls("_mi_os_reset")), f.where(), "calls _mi_os_reset and no decommit/purge function %s" % bad, key="C13.R5:reset")
    for c in f.calls("_mi_os_reset"):
        # the first word (the delayed-free link) is excluded from the reset
        a0 = rl.arg(f, c, 0)
        d = rl.var_of(f, a0)
        defs = [rhs for a, rhs, op in f.var_defs(d) if rhs is not None] if d is not None else [a0]
        ok = any(any(f.nodes[x]["k"] == "BinaryOperator" and f.nodes[x]["op"] == "+" and f.cv(f.nodes[x]["c"][1]) == prog.const("sizeof_mi_block_t") for x in f.walk(r)) for r in defs)
        ctx.check(R, ok, f.where(c), "the reset starts after the block's link word (it is about to be pushed on the delayed list)", key="C13.R5:link")
    g = prog.fn("_mi_os_reset")
    reach = prog.reachable([g.name], cut={"_mi_error_message", "_mi_warning_message", "_mi_assert_fail"})
    ctx.check(R, "_mi_prim_reset" in reach and "_mi_prim_decommit" not in reach, g.where(), "_mi_os_reset maps to the reset primitive only", key="C13.R5:prim")
    ctx.floor(R, 3)


def r6(ctx, prog):
    R = ctx.rule("C13.R6", "lazily committed arenas (arena_eager_commit=0, purged ranges): a claimed range with any uncommitted block is committed as a whole before it is "
                           "handed out — the committed-bitmap count is not a prefix length")
    shared.arena_commit_whole_range(ctx, R, prog)
    ctx.floor(R, 1)


def r7(ctx, prog):
    R = ctx.rule("C13.R7", "ensure-committed means committed: mi_segment_commit extends commit_mask only after the OS accepted the commit and returns false otherwise "
                           "(a bit set for refused memory is a span later used without a commit); the masks built for a slice range contain exactly its bits "
                           "(a missing bit leaves a pending purge of live slices un-cancelled)")
    shared.segment_commit_after_success(ctx, R, prog)
    shared.commit_mask_exact(ctx, R, prog)
    ctx.floor(R, 4)


def run(ctx):
    ctx.explanation = ("Static decision of the code-shaped half of C13 ('purging never touches live data'): orientation of the conservative/liberal rounding and of every caller's "
                       "constant, purge⊆commit intersection and clearing on commit, commit-before-use dominance, the in-use bracket around arena purges and the order of "
                       "scheduling vs release, reset-only treatment of live huge blocks. NOT decided: the first sentence of the property (all guarantees under every option "
                       "combination) — a run-time matrix no static argument in reach covers.")
    for c in (["REL"] if ctx.tier == "quick" else ["REL", "SEC", "DBG"]):
        prog = ctx.prog(c)
        n0 = len(ctx.instances)
        r1(ctx, prog); r2(ctx, prog); r3(ctx, prog); r4(ctx, prog); r5(ctx, prog); r6(ctx, prog); r7(ctx, prog)
        if c != "REL":
            for i in ctx.instances[n0:]:
                i["site"] += " [%s]" % c
                if not i["ok"]:
                    i["key"] += ":" + c
