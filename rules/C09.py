"""C09 — thread exit: blocks survive, adoption is exclusive, nothing leaks (DESIGN §4 C09). Level: other.

Decided: exit path shape (R1), abandon order (R2), nothing touched after publication (R3), adoption only through the
atomic un-abandon (R4), only heaps that may reclaim adopt (R5), empty segments released (R6), forced abandonment pairing (R7).
Not decided: validity of surviving contents; exclusivity of adoption over schedules.
"""
import rl, shared
from facts import AnalysisBroken

LEVEL = "other"


def r1(ctx, prog):
    R = ctx.rule("C09.R1", "thread exit: non-backing heaps are deleted, the backing heap is collected with MI_ABANDON before its thread data is freed, "
                           "and the heap is not touched afterwards")
    f = prog.fn("_mi_thread_heap_done")
    cfg = f.cfg
    dels = list(f.calls("mi_heap_delete"))
    ctx.check(R, len(dels) >= 1 and all(f.cfg.in_loop(c) for c in dels), f.where(), "mi_heap_delete is called in the loop over tld->heaps", key="C09.R1:delete_loop")
    frees = list(f.calls("mi_thread_data_free"))
    if not frees:
        ctx.fail(R, f.where(), "no call to mi_thread_data_free", key="C09.R1:nofree")
    for c in frees:
        w = rl.precedes(f, rl.call_to("_mi_heap_collect_abandon")(f), c)
        ctx.check(R, w is None, f.where(c), "_mi_heap_collect_abandon precedes mi_thread_data_free on every path", key="C09.R1:collect_before_free", witness=w)
        w2 = rl.precedes(f, lambda e: e in dels, c, edge_ok=None)
        # the deletion loop may run zero times; what matters is that no mi_heap_delete can follow the free
        later = [d for d in dels if cfg.reaches(cfg.after(c), cfg.pt(d))]
        ctx.check(R, not later, f.where(c), "no heap is deleted after the thread data was freed", key="C09.R1:delete_after_free")
        a0 = rl.arg(f, c, 0)
        d = rl.var_of(f, a0)
        bad = rl.never_after(f, c, d) if d is not None else ["?"]
        ctx.check(R, not bad, f.where(c), "heap is not accessed after mi_thread_data_free(heap)", key="C09.R1:use_after_free",
                  witness=[f.loc(b) for b in bad if isinstance(b, int)])
    g = prog.fn("_mi_heap_collect_abandon")
    ok = any(shared.enum_arg_is(g, c, 1, "MI_ABANDON") for c in g.calls("mi_heap_collect_ex"))
    ctx.check(R, ok, g.where(), "_mi_heap_collect_abandon = mi_heap_collect_ex(heap, MI_ABANDON)", key="C09.R1:collect_abandon")
    td = prog.fn("_mi_thread_done")
    ctx.check(R, any(True for _ in td.calls("_mi_thread_heap_done")), td.where(), "_mi_thread_done runs _mi_thread_heap_done", key="C09.R1:thread_done")
    ctx.floor(R, 6)


def r2(ctx, prog):
    R = ctx.rule("C09.R2", "abandon order: never-delayed-free ≺ drain of the delayed list ≺ page abandon; xheap is cleared only on that path; "
                           "free spans leave the thread's queues before the segment is published")
    shared.abandon_order(ctx, R, prog)
    f = prog.fn("_mi_page_abandon")
    sets = [c for c in f.calls("mi_page_set_heap") if f.cv(rl.arg(f, c, 1)) == 0]
    ctx.check(R, len(sets) >= 1, f.where(), "_mi_page_abandon clears the page's heap", key="C09.R2:clear")
    for c in f.calls("_mi_segment_page_abandon"):
        w = rl.precedes(f, lambda e: e in sets, c)
        ctx.check(R, w is None, f.where(c), "page heap cleared before _mi_segment_page_abandon", key="C09.R2:clear_before", witness=w)
        w = rl.precedes(f, rl.call_to("mi_page_queue_remove")(f), c)
        ctx.check(R, w is None, f.where(c), "page removed from its queue before _mi_segment_page_abandon", key="C09.R2:remove_before", witness=w)
    g = prog.fn("mi_segment_abandon")
    rm = rl.calls_doing(prog, g, ("mi_span_queue_delete",))
    ctx.check(R, bool(rm) and all(g.cfg.in_loop(c) for c in rm), g.where(), "free spans are removed from the span queues in the slice loop", key="C09.R2:spans")
    for c in g.calls("_mi_arena_segment_mark_abandoned"):
        later = [x for x in rm if g.cfg.reaches(g.cfg.after(c), g.cfg.pt(x))]
        ctx.check(R, not later, g.where(c), "no span-queue surgery after publication", key="C09.R2:spans_after")
    ctx.floor(R, 12)


def r3(ctx, prog):
    R = ctx.rule("C09.R3", "after _mi_arena_segment_mark_abandoned(S) no path reads or writes S->...; inside it thread_id=0 (release) precedes "
                           "the bitmap claim / list push and the sub-process pointer is read before")
    n = 0
    for cname in rl.callers_of(prog, "_mi_arena_segment_mark_abandoned"):
        f = prog.fn(cname)
        for c in f.calls("_mi_arena_segment_mark_abandoned"):
            n += 1
            d = rl.var_of(f, rl.arg(f, c, 0))
            if d is None:
                ctx.fail(R, f.where(c), "argument is not a plain variable: cannot track", key="C09.R3:%s:arg" % cname)
                continue
            bad = rl.never_after(f, c, d)
            ctx.check(R, not bad, f.where(c), "segment is not touched after it was published as abandoned", key="C09.R3:%s" % cname,
                      witness=[f.loc(b) for b in bad])
    if n < 4:
        ctx.broke("C09.R3: fewer than 4 publication sites (%d)" % n)
    f = prog.fn("_mi_arena_segment_mark_abandoned")
    d = f.param_id(0)
    # the OS-list publication: the push onto subproc->abandoned_os_list(_tail), done here or in a private helper
    def pushes(h_):
        return [a for a, l, rhs, op in h_.stores() if rl.field_is(h_, l, "abandoned_os_list_tail")]
    pubs = [c for c in f.calls("_mi_bitmap_claim")] + [c for c in f.calls() if f.nodes[c].get("callee") in prog.fns and f.nodes[c]["callee"] != f.name and
                                                      prog.fns[f.nodes[c]["callee"]].d.get("static") and pushes(prog.fns[f.nodes[c]["callee"]])] + pushes(f)
    ctx.check(R, len(pubs) >= 2, f.where(), "both publication mechanisms present (bitmap claim, OS list push)", key="C09.R3:mark:mech")
    for c in pubs:
        w = rl.precedes(f, rl.atomic_store_to(f, "thread_id", min_order=3), c)
        ok = w is None
        ctx.check(R, ok, f.where(c), "thread_id is stored (release) before %s" % f.nodes[c].get("callee", "the list push"), key="C09.R3:mark:order", witness=w)
        if f.nodes[c].get("callee") == "_mi_bitmap_claim":
            bad = rl.never_after(f, c, d)
            ctx.check(R, not bad, f.where(c), "segment not accessed after the blocks_abandoned bit is set", key="C09.R3:mark:after",
                      witness=[f.loc(b) for b in bad])
    for s in [e for e in f.all() if rl.atomic_store_to(f, "thread_id")(e)]:
        v = f.nodes[s].get("val1")
        ctx.check(R, v is not None and f.cv(v) == 0, f.where(s), "the value stored to thread_id is 0", key="C09.R3:mark:zero")
    ctx.floor(R, 9)


def r4(ctx, prog):
    R = ctx.rule("C09.R4", "mi_segment_reclaim(S) only for an S obtained through the atomic un-abandon: S = clear_abandoned_next(..) != NULL, or the "
                           "true edge of _mi_arena_segment_clear_abandoned(S); the un-abandon itself is one successful bitmap RMW + sub-process check")
    n = 0
    for cname in rl.callers_of(prog, "mi_segment_reclaim"):
        f = prog.fn(cname)
        cfg = f.cfg
        for c in f.calls("mi_segment_reclaim"):
            n += 1
            d = rl.var_of(f, rl.arg(f, c, 0))
            ok = False
            how = ""
            if d is not None:
                if cfg.guarded(cfg.pt(c), rl.fact_call_true(f, "_mi_arena_segment_clear_abandoned", d)) is None:
                    ok, how = True, "true edge of _mi_arena_segment_clear_abandoned(S)"
                else:
                    defs = [(a, rhs, op) for a, rhs, op in f.var_defs(d) if op != "decl" or rhs is not None]
                    srcs_ok = all(rhs is not None and (rl.is_call(f, f.strip(rhs), "_mi_arena_segment_clear_abandoned_next") or f.cv(rhs) == 0)
                                  for a, rhs, op in defs) and any(rhs is not None and rl.is_call(f, f.strip(rhs), "_mi_arena_segment_clear_abandoned_next") for a, rhs, op in defs)

                    def nn(e, pol):
                        if not isinstance(e, int):
                            return False
                        return rl.fact_nonnull(f, e, pol, lambda j: (f.nodes[j]["k"] == "DeclRefExpr" and f.nodes[j]["d"] == d) or
                                               (f.nodes[j]["k"] == "BinaryOperator" and f.nodes[j]["op"] == "=" and f.is_ref(f.nodes[j]["c"][0], d)))
                    if srcs_ok and cfg.guarded(cfg.pt(c), nn) is None:
                        ok, how = True, "S = _mi_arena_segment_clear_abandoned_next(..) on its non-NULL edge"
            ctx.check(R, ok, f.where(c), "segment passed to mi_segment_reclaim was atomically un-abandoned (%s)" % (how or "no un-abandon dominates the call"),
                      key="C09.R4:%s" % cname)
    if n < 6:
        ctx.broke("C09.R4: fewer than the 6 reclaim call sites confirmed on the pinned tree (%d)" % n)
    # the arena un-abandon
    f = prog.fn("_mi_arena_segment_clear_abandoned")
    cfg = f.cfg
    wm = [dd["d"] for _, dd in rl.var_init_from(f, lambda j: rl.is_call(f, j, "_mi_bitmap_unclaim"))]
    sts = [e for e in f.all() if rl.atomic_store_to(f, "thread_id")(e)]
    ctx.check(R, bool(wm) and bool(sts), f.where(), "result of _mi_bitmap_unclaim(blocks_abandoned) is kept; thread_id is claimed", key="C09.R4:clear:shape")
    if wm:
        for s in sts:
            w = cfg.guarded(cfg.pt(s), lambda e, pol: isinstance(e, int) and pol and rl.var_of(f, e) == wm[0])
            ctx.check(R, w is None, f.where(s), "thread_id is taken only on the was_marked edge", key="C09.R4:clear:guard", witness=w)
        rets = [r for r in f.all(kind="ReturnStmt")]
        okr = all(("val" in f.nodes[r]) and (rl.var_of(f, f.nodes[r]["val"]) == wm[0] or rl.is_call(f, f.strip(f.nodes[r]["val"]), "mi_arena_segment_os_clear_abandoned"))
                  for r in rets)
        ctx.check(R, okr, f.where(), "returns was_marked (or the OS-list result)", key="C09.R4:clear:ret")
    f = prog.fn("mi_arena_segment_clear_abandoned_at")
    cfg = f.cfg
    for r in f.all(kind="ReturnStmt"):
        if "val" in f.nodes[r] and f.cv(f.nodes[r]["val"]) != 0:
            w1 = cfg.guarded(cfg.pt(r), lambda e, pol: isinstance(e, int) and pol and rl.is_call(f, f.strip(e), "_mi_bitmap_unclaim"))
            def same_subproc(e, pol):
                if not isinstance(e, int):
                    return False
                c = rl.norm_cmp(f, e, pol)
                return c is not None and c[0] == "==" and (rl.field_is(f, c[1], "subproc") or rl.field_is(f, c[2], "subproc"))
            w2 = cfg.guarded(cfg.pt(r), same_subproc)
            ctx.check(R, w1 is None and w2 is None, f.where(r), "a segment is returned only after a successful _mi_bitmap_unclaim and segment->subproc == subproc",
                      key="C09.R4:clear_at:guard", witness=w1 or w2)
    def other_subproc(e, pol):
        if not isinstance(e, int):
            return False
        c = rl.norm_cmp(f, e, pol)
        return c is not None and c[0] == "!=" and (rl.field_is(f, c[1], "subproc") or rl.field_is(f, c[2], "subproc"))
    hit = [q for p, q, e, pol in rl.edges_with_fact(f, other_subproc)]
    ok = bool(hit) and all(cfg.must_pass([q], cfg.exit_points(), rl.call_to("_mi_bitmap_claim")(f)) is None for q in hit)
    ctx.check(R, ok, f.where(), "a segment of another sub-process is re-marked on every path", key="C09.R4:clear_at:remark")
    # reclaim-on-free picks the segment itself (it is not handed out by the sub-process aware cursor): the un-abandon must be
    # behind the sub-process test on every path, whatever kind of memory the segment lives in
    f = prog.fn("_mi_segment_attempt_reclaim")
    cfg = f.cfg
    def same_sub(e, pol):
        return isinstance(e, int) and rl.rel(f, e, pol, rl.is_field(f, "subproc"), rl.is_field(f, "subproc")) == "=="
    cs = list(f.calls("_mi_arena_segment_clear_abandoned"))
    for c in cs:
        w = cfg.guarded(cfg.pt(c), same_sub)
        ctx.check(R, w is None, f.where(c), "reclaim-on-free un-abandons only a segment of the caller's own sub-process (segment->subproc == heap->tld->segments.subproc on every path)",
                  key="C09.R4:attempt:subproc", witness=w)
    if not cs:
        ctx.broke("C09.R4: no un-abandon in _mi_segment_attempt_reclaim")
    ctx.floor(R, 12)


def r5(ctx, prog):
    R = ctx.rule("C09.R5", "every path from a heap to mi_segment_reclaim *for use* requires !heap->no_reclaim")
    shared.adopter_may_adopt(ctx, R, prog)
    ctx.floor(R, 7)


def r6(ctx, prog):
    R = ctx.rule("C09.R6", "an abandoned segment found empty is released: the `segment->used == 0` edge reaches mi_segment_reclaim, which frees on used == 0")
    for fname in ("mi_segment_try_reclaim", "_mi_abandoned_collect"):
        f = prog.fn(fname)
        cfg = f.cfg
        hit = [q for p, q, e, pol in rl.edges_with_fact(f, rl.fact_field_eq(f, "used", 0))]
        ok = bool(hit)
        w = None
        for q in hit:
            # until the loop continues (next clear_abandoned_next) or the function leaves, reclaim must run
            goals = cfg.exit_points() + [cfg.pt(c) for c in f.calls("_mi_arena_segment_clear_abandoned_next")]
            w = cfg.must_pass([q], goals, rl.call_to("mi_segment_reclaim")(f))
            ok = ok and w is None
        ctx.check(R, ok, f.where(), "on `segment->used == 0` the segment is reclaimed (and thereby freed) before the next one is taken", key="C09.R6:%s" % fname, witness=w)
    f = prog.fn("mi_segment_reclaim")
    cfg = f.cfg
    hit = [q for p, q, e, pol in rl.edges_with_fact(f, rl.fact_field_eq(f, "used", 0))]
    ok = bool(hit) and all(cfg.must_pass([q], cfg.exit_points(), rl.call_to("mi_segment_free")(f)) is None for q in hit)
    ctx.check(R, ok, f.where(), "mi_segment_reclaim frees the segment on `segment->used == 0`", key="C09.R6:mi_segment_reclaim")
    ctx.floor(R, 3)


def r7(ctx, prog):
    R = ctx.rule("C09.R7", "forced abandonment: dont_free=true is undone on every exit; never-delayed ≺ drain ≺ capacity re-check ≺ free-or-abandon")
    f = prog.fn("mi_segment_force_abandon")
    sets = [a for a, l, rhs, op in f.field_stores("dont_free") if rhs is not None and f.cv(rhs) == 1]
    ctx.check(R, len(sets) >= 1, f.where(), "dont_free is set", key="C09.R7:set")
    for s in sets:
        w = rl.followed_by(f, s, rl.store_field_const(f, "dont_free", 0))
        ctx.check(R, w is None, f.where(s), "segment->dont_free = true is reset on every path to an exit", key="C09.R7:undo", witness=w)
    # the reset comes before the call that may free/abandon the segment on the last page
    for c in f.calls("mi_segment_free"):
        w = rl.precedes(f, rl.store_field_const(f, "dont_free", 0), c, starts=[f.cfg.after(s) for s in sets])
        ctx.check(R, w is None, f.where(c), "dont_free is cleared before mi_segment_free", key="C09.R7:before_free", witness=w)
    g = prog.fn("_mi_page_force_abandon")
    for c in g.calls(("_mi_page_free", "_mi_page_abandon")):
        w = rl.precedes(g, rl.call_to("_mi_heap_delayed_free_all")(g), c)
        ctx.check(R, w is None, g.where(c), "the delayed list is drained before %s" % g.nodes[c]["callee"], key="C09.R7:drain", witness=w)
        def cap_nonzero(e, pol):
            if not isinstance(e, int):
                return False
            cc = rl.norm_cmp(g, e, pol)
            return cc is not None and cc[0] == "!=" and rl.field_is(g, cc[1], "capacity") and g.cv(cc[2]) == 0
        w = g.cfg.guarded(g.cfg.pt(c), cap_nonzero)
        ctx.check(R, w is None, g.where(c), "page->capacity is re-checked (page may have been freed by the drain)", key="C09.R7:capacity", witness=w)
    ctx.floor(R, 6)


def r8(ctx, prog):
    R = ctx.rule("C09.R8", "OS abandoned list: membership is read from the segment's own links, so removing a segment from the list resets both links on every path "
                           "(otherwise a second thread's reclaim-on-free sees it as still abandoned and adopts it again)")
    f = prog.fn("mi_arena_segment_os_clear_abandoned")
    cfg = f.cfg
    seg = f.param_id(0)
    # reader: the in-list test reads segment->abandoned_os_next / _prev
    reads = [m for m in f.all(kind="MemberExpr") if f.nodes[m]["fld"] in ("abandoned_os_next", "abandoned_os_prev") and f.is_ref(f.nodes[m]["c"][0], seg) and f.access(m) == "read"]
    ctx.check(R, len(reads) >= 2, f.where(), "the in-list test reads the segment's own links", key="C09.R8:reader")
    # unlink stores: list head / neighbour links
    unlink = [a for a, l, rhs, op in f.stores() if (rl.field_is(f, l, "abandoned_os_list") or rl.field_is(f, l, "abandoned_os_list_tail") or
                                                     (f.nodes[f.strip(l)]["k"] == "MemberExpr" and f.nodes[f.strip(l)]["fld"] in ("abandoned_os_next", "abandoned_os_prev") and
                                                      not f.is_ref(f.nodes[f.strip(l)]["c"][0], seg)))]
    ctx.check(R, len(unlink) >= 4, f.where(), "unlink stores present (%d)" % len(unlink), key="C09.R8:unlink")
    for fld in ("abandoned_os_next", "abandoned_os_prev"):
        def clr(e, fld=fld):
            n = f.nodes[e]
            if n["k"] != "BinaryOperator" or n["op"] != "=" or f.cv(n["c"][1]) != 0:
                return False
            l = f.strip(n["c"][0])
            return f.nodes[l]["k"] == "MemberExpr" and f.nodes[l]["fld"] == fld and f.is_ref(f.nodes[l]["c"][0], seg)
        w = None
        for u in unlink:
            w = w or cfg.must_pass([cfg.after(u)], cfg.exit_points(), clr)
        ctx.check(R, w is None, f.where(), "after unlinking, segment->%s = NULL on every path to the return" % fld, key="C09.R8:%s" % fld, witness=w)
    g = next((h_ for h_ in prog.fns.values() if any(rl.field_is(h_, l, "abandoned_os_list_tail") and rhs is not None and h_.cv(rhs) is None for a, l, rhs, op in h_.stores())
              and any(rl.field_is(h_, l, "abandoned_os_prev") for a, l, rhs, op in h_.stores())), None)
    if g is None:
        raise AnalysisBroken("C09.R8: the function that pushes a segment on the abandoned OS list was not found")
    ok = any(rl.field_is(g, l, "abandoned_os_prev") for a, l, rhs, op in g.stores()) and any(rl.field_is(g, l, "abandoned_os_next") for a, l, rhs, op in g.stores())
    ctx.check(R, ok, g.where(), "marking sets both links", key="C09.R8:mark")
    ctx.floor(R, 5)


def r9(ctx, prog):
    R = ctx.rule("C09.R9", "nothing leaks out of the abandoned set: a segment un-abandoned by the cursor is re-marked or reclaimed on every path before the next fetch or the return")
    shared.cursor_pairing(ctx, R, prog)
    ctx.floor(R, 4)


def r10(ctx, prog):
    R = ctx.rule("C09.R10", "a page that is being abandoned stays never-delayed: draining the delayed list does not re-arm delayed free over MI_NEVER_DELAYED_FREE — otherwise the next "
                            "remote free goes to the dying heap's delayed list, which nobody drains: the block (and its segment) is never released")
    shared.rearm_respects_never(ctx, R, prog)
    ctx.floor(R, 2)


def r11(ctx, prog):
    R = ctx.rule("C09.R11", "the abandoned-page count follows every page that leaves the abandoned state: in mi_segment_reclaim each used page — whether it is reclaimed into "
                            "the heap or turns out to be all free and is cleared — decrements segment->abandoned exactly once, and mi_segment_check_free decrements it "
                            "before clearing a page; a stale count makes the owner re-abandon (used == abandoned) a segment that still has a page in its heap, "
                            "which a second thread then adopts as well")
    f = prog.fn("mi_segment_reclaim")
    cfg = f.cfg
    decs = [a for a, l, kind, opnd in f.field_updates("abandoned") if kind == "sub" and opnd == 1]
    is_dec = lambda e: e in decs
    used = [q for p_, q, e, pol in rl.edges_with_fact(f, lambda e, pol: isinstance(e, int) and pol and (rl.is_call(f, f.strip(e), "mi_slice_is_used") or f.mentions_field(e, "xblock_size") or f.mentions_field(e, "block_size")))]
    outs = list(f.calls(("_mi_page_reclaim", "mi_segment_page_clear")))
    if not used or len(outs) < 2:
        ctx.broke("C09.R11: the used-slice test / the two outcomes of a used page in mi_segment_reclaim not found")
    else:
        ctx.check(R, len(decs) == 1, f.where(decs[0]) if decs else f.where(), "one decrement of segment->abandoned per used page", key="C09.R11:once")
        for c in outs:
            w = cfg.must_pass(used, [cfg.pt(c)], is_dec)
            ctx.check(R, w is None, f.where(c), "%s of a used page is reached only after segment->abandoned--" % f.nodes[c]["callee"], key="C09.R11:%s" % f.nodes[c]["callee"], witness=w)
    g = prog.fn("mi_segment_check_free")
    decs2 = [a for a, l, kind, opnd in g.field_updates("abandoned") if kind == "sub" and opnd == 1]
    clears = list(g.calls("mi_segment_page_clear"))
    if not clears:
        ctx.broke("C09.R11: mi_segment_check_free no longer clears free pages")
    for c in clears:
        # per iteration: from the all-free test's true edge
        st = [q for p_, q, e, pol in rl.edges_with_fact(g, lambda e, pol: isinstance(e, int) and pol and (rl.is_call(g, g.strip(e), "mi_page_all_free") or g.mentions_field(e, "used")))]
        w = g.cfg.must_pass(st, [g.cfg.pt(c)], lambda e: e in decs2) if st else [g.nodes[c]["ln"]]
        ctx.check(R, w is None, g.where(c), "a free page of an abandoned segment is cleared only after segment->abandoned--", key="C09.R11:check_free", witness=w)
    ctx.floor(R, 4)


def run(ctx):
    ctx.explanation = ("Static decision of C09's code-shaped necessary conditions over every CFG path of the thread-exit, abandon, un-abandon and "
                       "reclaim functions: ordering (must-pass-through), never-after-publication, guards on adoption (atomic un-abandon result, "
                       "sub-process, no_reclaim), release of empty segments, forced-abandon pairing. NOT decided: contents of surviving blocks, "
                       "exclusivity of adoption as a schedule property.")
    for c in (["REL"] if ctx.tier == "quick" else ["REL", "SEC", "DBG"]):
        prog = ctx.prog(c)
        n0 = len(ctx.instances)
        r1(ctx, prog); r2(ctx, prog); r3(ctx, prog); r4(ctx, prog); r5(ctx, prog); r6(ctx, prog); r7(ctx, prog); r8(ctx, prog); r9(ctx, prog); r10(ctx, prog); r11(ctx, prog)
        if c != "REL":
            for i in ctx.instances[n0:]:
                i["site"] += " [%s]" % c
                if not i["ok"]:
                    i["key"] += ":" + c
