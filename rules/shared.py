"""Rule bodies shared by several properties (the same code clause is a necessary condition of more than one property).
Each function takes the rule id under which the calling property records its instances."""
import rl
from facts import AnalysisBroken


def enum_arg_is(fn, call, k, enumname):
    a = fn.strip(rl.arg(fn, call, k))
    n = fn.nodes[a]
    return n["k"] == "DeclRefExpr" and n["n"] == enumname


def never_delayed_call(fn):
    """CFG-element predicate: _mi_page_use_delayed_free(page, MI_NEVER_DELAYED_FREE, ...)"""
    return lambda e: rl.is_call(fn, e, "_mi_page_use_delayed_free") and enum_arg_is(fn, e, 1, "MI_NEVER_DELAYED_FREE")


def visits_with(fn, callback):
    """CFG-element predicate: mi_heap_visit_pages(heap, &callback, ...)"""
    def f(e):
        if not rl.is_call(fn, e, "mi_heap_visit_pages"):
            return False
        a = rl.arg(fn, e, 1)
        return any(fn.nodes[x]["k"] == "DeclRefExpr" and fn.nodes[x]["n"] == callback for x in fn.walk(a))
    return f


def adopter_may_adopt(ctx, R, prog):
    """C09.R5 / C10.R3: every reclaim *for use* by a heap requires !heap->no_reclaim."""
    n = 0
    for fname in ("mi_segment_try_reclaim", "_mi_segment_attempt_reclaim"):
        f = prog.fn(fname)
        cfg = f.cfg
        for c in f.calls("mi_segment_reclaim"):
            n += 1
            # reclaim of an all-free segment only releases it (no page is adopted): exempt
            if cfg.guarded(cfg.pt(c), rl.fact_field_eq(f, "used", 0)) is None:
                ctx.ok(R, f.where(c), "reclaim only to free an empty segment (segment->used == 0 edge)")
                continue
            w = cfg.guarded(cfg.pt(c), rl.fact_field_false(f, "no_reclaim"))
            ctx.check(R, w is None, f.where(c), "mi_segment_reclaim (pages adopted into the heap) only on the `!heap->no_reclaim` edge",
                      key="C09.R5:%s" % fname, witness=w)
    f = prog.fn("mi_heap_collect_ex")
    cfg = f.cfg
    for c in f.calls("_mi_abandoned_reclaim_all"):
        n += 1
        # guarded by a flag whose definition is a conjunction containing !heap->no_reclaim
        ok = False
        for p, q, e, pol in rl.edges_with_fact(f, lambda e, pol: pol and rl.var_of(f, e) is not None):
            d = rl.var_of(f, e)
            defs = [rhs for a, rhs, op in f.var_defs(d) if rhs is not None]
            if len(defs) == 1 and any(f.nodes[x]["k"] == "UnaryOperator" and f.nodes[x]["op"] == "!" and rl.field_is(f, f.nodes[x]["c"][0], "no_reclaim")
                                      for x in rl.conjuncts(f, defs[0])):
                if cfg.guarded(cfg.pt(c), lambda e2, pol2: isinstance(e2, int) and pol2 and rl.var_of(f, e2) == d) is None:
                    ok = True
        if not ok:
            ok = cfg.guarded(cfg.pt(c), rl.fact_field_false(f, "no_reclaim")) is None
        ctx.check(R, ok, f.where(c), "_mi_abandoned_reclaim_all only for a heap with !no_reclaim", key="C09.R5:mi_heap_collect_ex")
    f = prog.fn("_mi_abandoned_collect")
    cfg = f.cfg
    for c in f.calls("mi_segment_reclaim"):
        n += 1
        w = cfg.guarded(cfg.pt(c), rl.fact_field_eq(f, "used", 0))
        ctx.check(R, w is None, f.where(c), "_mi_abandoned_collect reclaims only empty segments (to free them)", key="C09.R5:_mi_abandoned_collect", witness=w)
    # any other caller of mi_segment_reclaim is unknown to the table
    known = {"mi_segment_try_reclaim", "_mi_segment_attempt_reclaim", "_mi_abandoned_collect", "_mi_abandoned_reclaim_all"}
    for c in rl.callers_of(prog, "mi_segment_reclaim"):
        ctx.check(R, c in known, prog.fn(c).where(), "caller of mi_segment_reclaim is one of the four reviewed adoption sites", key="C09.R5:caller:%s" % c)
    return n


def abandon_order(ctx, R, prog):
    """C02.R5 / C09.R2: never-delayed-free before the delayed list is drained before pages are collected/abandoned."""
    f = prog.fn("mi_heap_collect_ex")
    cfg = f.cfg
    never = visits_with(f, "mi_heap_page_never_delayed_free")
    collect = visits_with(f, "mi_heap_page_collect")
    drain = rl.call_to("_mi_heap_delayed_free_all")(f)
    cs = [e for e in f.calls("mi_heap_visit_pages") if collect(e)]
    if not cs:
        raise AnalysisBroken("mi_heap_collect_ex no longer visits pages with mi_heap_page_collect")
    for c in cs:
        w = rl.precedes(f, drain, c)
        ctx.check(R, w is None, f.where(c), "_mi_heap_delayed_free_all precedes the page collect/abandon visit on every path", key=R + ":collect:drain", witness=w)
    # on the MI_ABANDON edge the never-delayed visit precedes the drain
    ab = [q for p, q, e, pol in rl.edges_with_fact(f, lambda e, pol: _is_cmp_enum(f, e, pol, "MI_ABANDON"))]
    ds = [e for e in f.calls("_mi_heap_delayed_free_all")]
    ok = bool(ab)
    w = None
    for d in ds:
        # every path entry -> drain that carries collect==MI_ABANDON passes the never-delayed visit: the visit must sit on
        # the true edge and the drain must not be reachable from the abandon edge without it
        w = cfg.must_pass(ab, [cfg.pt(d)], never)
        if w is not None:
            ok = False
    ctx.check(R, ok, f.where(), "on the `collect == MI_ABANDON` edge all pages are set to MI_NEVER_DELAYED_FREE before the delayed list is drained",
              key=R + ":collect:never", witness=w)
    # the abandon itself happens only under MI_ABANDON
    g = prog.fn("mi_heap_page_collect")
    for c in g.calls("_mi_page_abandon"):
        w = g.cfg.guarded(g.cfg.pt(c), lambda e, pol: isinstance(e, int) and _is_cmp_enum(g, e, pol, "MI_ABANDON"))
        ctx.check(R, w is None, g.where(c), "_mi_page_abandon only on the `collect == MI_ABANDON` edge", key=R + ":page_collect", witness=w)
    # destroy and forced abandonment set never-delayed first
    for fname, later in (("_mi_heap_page_destroy", ("_mi_segment_page_free",)), ("_mi_page_force_abandon", ("_mi_heap_delayed_free_all", "_mi_page_abandon", "_mi_page_free"))):
        h = prog.fn(fname)
        for c in h.calls(later):
            w = rl.precedes(h, never_delayed_call(h), c)
            ctx.check(R, w is None, h.where(c), "MI_NEVER_DELAYED_FREE is set before %s" % h.nodes[c]["callee"], key=R + ":%s:%s" % (fname, h.nodes[c]["callee"]), witness=w)
    # queue append: xheap store then wait out DELAYED_FREEING per page
    h = prog.fn("_mi_page_queue_append")
    sts = [e for e in h.all() if rl.atomic_store_to(h, "xheap")(e) or rl.is_call(h, e, "mi_page_set_heap")]
    ctx.check(R, len(sts) >= 1, h.where(), "_mi_page_queue_append re-targets page->xheap", key=R + ":append:store")
    for s in sts:
        w = rl.followed_by(h, s, lambda e: rl.is_call(h, e, "_mi_page_use_delayed_free") and enum_arg_is(h, e, 1, "MI_USE_DELAYED_FREE"))
        ctx.check(R, w is None, h.where(s), "after the xheap store every path waits out DELAYED_FREEING via _mi_page_use_delayed_free", key=R + ":append:wait", witness=w)
    # owner waits: the retry loop of _mi_page_try_use_delayed_free continues while DELAYED_FREEING is observed
    h = prog.fn("_mi_page_try_use_delayed_free")
    cas = [e for e in h.all(kind="AtomicExpr") if h.nodes[e]["aop"].startswith("cas")]
    ok = False
    for p, q, e, pol in rl.edges_with_fact(h, lambda e, pol: _is_cmp_enum(h, e, pol, "MI_DELAYED_FREEING")):
        # the edge that observed DELAYED_FREEING must not lead to the CAS without re-loading xthread_free
        loads = lambda x: h.nodes[x]["k"] == "AtomicExpr" and h.nodes[x]["aop"] == "load" and h.mentions_field(h.nodes[x]["ptr"], "xthread_free")
        bad = [c for c in cas if h.cfg.must_pass([q], [h.cfg.pt(c)], loads, edge_ok=rl.consistent_edges(h, e, pol)) is not None]
        ok = not bad
        ctx.check(R, ok, h.where(e), "after observing MI_DELAYED_FREEING the flag is never CASed without re-loading xthread_free", key=R + ":try_use:wait")
    if not cas:
        raise AnalysisBroken("_mi_page_try_use_delayed_free has no CAS")


def _is_cmp_enum(fn, e, pol, enumname):
    if not isinstance(e, int):
        return False
    c = rl.norm_cmp(fn, e, pol)
    if c is None or c[0] != "==":
        return False
    for a in (c[1], c[2]):
        j = fn.strip(a)
        if fn.nodes[j]["k"] == "DeclRefExpr" and fn.nodes[j]["n"] == enumname:
            return True
    return False


def recount(ctx, R, prog):
    """C01.R3 / C08.R6: the thread-free take-over appends the old local list to the tail and subtracts the walked count from `used`."""
    f = prog.fn("_mi_page_thread_free_collect")
    cfg = f.cfg
    # counter: a local initialised to 1 that is incremented in the loop that walks mi_block_next
    cnts = [dd["d"] for _, dd in rl.local_decl(f, lambda dd: "init" in dd and f.cv(dd["init"]) == 1 and dd.get("w", 0) > 0)]
    incs = [(x, d) for d in cnts for x, kind, opnd in f.var_updates(d) if kind == "add" and opnd == 1]
    tails = [dd["d"] for _, dd in rl.local_decl(f, lambda dd: "init" in dd and rl.var_of(f, dd["init"]) is not None and "mi_block_t" in dd["t"])]
    ok = len(incs) == 1 and all(cfg.in_loop(x) for x, d in incs)
    ctx.check(R, ok, f.where(), "a counter starting at 1 is incremented once per walked block", key=R + ":recount:counter")
    if not ok:
        return
    inc, cd = incs[0]
    # tail advances exactly when the counter is incremented
    adv = [a for t in tails for a, rhs, op in f.var_defs(t) if op == "=" and cfg.in_loop(a)]
    ok = len(adv) == 1 and cfg.must_pass([cfg.after(inc)], [cfg.pt(inc)] + cfg.exit_points(), lambda e: e in adv) is None
    ctx.check(R, ok, f.where(inc), "each increment is paired with one advance of the tail", key=R + ":recount:pair")
    subs = [(a, opnd) for a, l, kind, opnd in f.field_updates("used") if kind == "sub" and opnd != 1]
    ok = len(subs) == 1 and rl.var_of(f, subs[0][1]) == cd
    ctx.check(R, ok, f.where(subs[0][0]) if subs else f.where(), "page->used -= count (the walked count, not count±k)", key=R + ":recount:sub")
    heads = [a for a, l, rhs, op in f.field_stores("local_free") if op == "="]
    for a in heads:
        w = rl.precedes(f, lambda e: rl.is_call(f, e, "mi_block_set_next") and rl.field_is(f, f.nodes[e]["args"][2], "local_free") and rl.var_of(f, f.nodes[e]["args"][1]) in tails, a)
        ctx.check(R, w is None, f.where(a), "the old local_free list is linked behind the tail before local_free = head", key=R + ":recount:append", witness=w)
        w = rl.followed_by(f, a, lambda e: subs and e == subs[0][0])
        ctx.check(R, w is None, f.where(a), "the recount follows the take-over on every path", key=R + ":recount:follow", witness=w)


def flag_integrity(ctx, R, prog):
    """C01.R10 / C03.R4: the page flag byte is only changed through its two setters; has_aligned is cleared only where the page is all-free."""
    n = 0
    for f in prog.fns.values():
        for a, lhs, rhs, op in f.stores():
            l = f.strip(lhs)
            m = f.nodes[l]
            if m["k"] != "MemberExpr":
                continue
            if m["fld"] == "full_aligned" or (m["fld"] == "flags" and m.get("rec") == "mi_page_s"):
                n += 1
                ctx.fail(R, f.where(a), "store to the whole flag byte (%s) changes in_full and has_aligned together: a live interior (aligned) pointer would later be freed as a block start" % f.text(l),
                         key=R + ":flags:whole:%s" % f.name)
            elif m["fld"] == "has_aligned":
                n += 1
                ctx.check(R, f.name == "mi_page_set_has_aligned", f.where(a), "has_aligned is written only by its setter", key=R + ":flags:has_aligned:%s" % f.name)
            elif m["fld"] == "in_full" and m.get("rec") != "mi_page_s":
                n += 1
                ctx.check(R, f.name == "mi_page_set_in_full", f.where(a), "in_full is written only by its setter", key=R + ":flags:in_full:%s" % f.name)
    for f in prog.fns.values():
        for c in f.calls("mi_page_set_has_aligned"):
            n += 1
            v = f.cv(rl.arg(f, c, 1))
            if v == 0:
                ok = f.name in ("_mi_page_free", "_mi_page_retire")   # both require mi_page_all_free(page) on entry (C01.R6)
                ctx.check(R, ok, f.where(c), "has_aligned is cleared only where the page is all-free (%s)" % f.name, key=R + ":flags:clear:%s" % f.name)
            else:
                ctx.check(R, v == 1, f.where(c), "has_aligned is set with the constant true", key=R + ":flags:set:%s" % f.name)
    if n < 4:
        raise AnalysisBroken("flag integrity: only %d flag sites found" % n)


def forced_purge_not_skipped(ctx, R, prog):
    """C11.R5 / C18.R5: in the arena-level purge drivers (whose expiry values are hints that are reset even when work remains) an early
    return that depends on the expiry value is taken only when force is false."""
    for name, work in (("mi_arenas_try_purge", "mi_arena_try_purge"), ("mi_arena_try_purge", "mi_arena_purge_range")):
        f = prog.fn(name)
        cfg = f.cfg
        # the force flag by role: the only bool parameter, or the bool parameter that is handed on to the worker
        bools = [f.param_id(k) for k, p in enumerate(f.d["params"]) if p["t"] in ("_Bool", "bool")]
        if len(bools) > 1:
            bools = [d for d in bools if any(rl.var_of(f, a) == d for c in f.calls(work) for a in f.nodes[c]["args"])]
        force = bools[0] if len(bools) == 1 else None
        exps = {dd["d"] for _, dd in rl.local_decl(f, lambda dd: "init" in dd and any(f.nodes[x]["k"] == "AtomicExpr" and "expire" in f.text(f.nodes[x]["ptr"]) for x in f.walk(dd["init"])))}
        if force is None or not exps:
            raise AnalysisBroken("forced purge rule: force parameter / expiry local not found in %s" % name)
        n = 0
        for p, outs in cfg.edges.items():
            for q, lab in outs:
                fs = cfg.facts(lab)
                if not any(any(f.nodes[x]["k"] == "DeclRefExpr" and f.nodes[x]["d"] in exps for x in f.walk(e)) for e, pol in fs):
                    continue
                if rl.can_reach_call(f, q, lambda m: m.get("callee") == work):
                    continue
                if not hasattr(cfg, "_can_exit"):
                    list(rl.edges_with_fact(f, lambda e, pol: False))
                if q not in cfg._can_exit:
                    continue
                n += 1
                # a skip edge decided by the expiry value: must lie behind `!force`
                w = cfg.guarded(p, lambda e, pol: isinstance(e, int) and rl.fact_null(f, e, pol, rl.is_var(f, force)))
                ctx.check(R, w is None, f.where(fs[0][0]), "skipping %s because of the expiry value `%s` only when force is false (the expiry is a hint: a forced collect must still purge)"
                          % (work, f.text(fs[0][0])), key=R + ":forced:%s" % name, witness=w)
        if n == 0:
            raise AnalysisBroken("forced purge rule: no expiry-decided skip edge in %s" % name)


def cursor_pairing(ctx, R, prog):
    """C09.R9 / C12.R6: a segment taken from the abandoned set by the cursor (non-NULL result of _mi_arena_segment_clear_abandoned_next) is, on every path,
    re-marked abandoned or reclaimed before the next one is taken or the function leaves — otherwise it is in no set at all and is lost to every later walk/reclaim."""
    n = 0
    for cname in rl.callers_of(prog, "_mi_arena_segment_clear_abandoned_next"):
        f = prog.fn(cname)
        cfg = f.cfg
        for c in f.calls("_mi_arena_segment_clear_abandoned_next"):
            n += 1
            u = rl.result_use(f, c)
            d = None
            if isinstance(u, tuple):
                d = u[1] if u[0] == "init" else rl.var_of(f, u[1])
            if d is None:
                ctx.fail(R, f.where(c), "result of the cursor is not bound to a variable", key=R + ":pair:%s:bind" % cname)
                continue
            def nn(e, pol):
                return isinstance(e, int) and rl.fact_nonnull(f, e, pol, lambda j: (f.nodes[j]["k"] == "DeclRefExpr" and f.nodes[j]["d"] == d) or
                                                              (f.nodes[j]["k"] == "BinaryOperator" and f.nodes[j]["op"] == "=" and f.is_ref(f.nodes[j]["c"][0], d)))
            others = [cfg.pt(x) for x in f.calls("_mi_arena_segment_clear_abandoned_next")]
            done = lambda e: rl.is_call(f, e, ("_mi_arena_segment_mark_abandoned", "mi_segment_reclaim")) and rl.var_of(f, f.nodes[e]["args"][0]) == d
            def is_null(e, pol):
                return isinstance(e, int) and rl.fact_null(f, e, pol, lambda j: (f.nodes[j]["k"] == "DeclRefExpr" and f.nodes[j]["d"] == d) or
                                                           (f.nodes[j]["k"] == "BinaryOperator" and f.nodes[j]["op"] == "=" and f.is_ref(f.nodes[j]["c"][0], d)))
            # from the fetch itself: unless the result is established to be NULL, the segment must be handed back before the next fetch / the exit
            w = cfg.must_pass([cfg.after(c)], cfg.exit_points() + others, done, edge_ok=lambda lab, p, q: not any(is_null(e, pol) for e, pol in cfg.facts(lab)))
            ctx.check(R, w is None, f.where(c), "every segment taken by the cursor is re-marked or reclaimed before the next fetch / the return", key=R + ":pair:%s" % cname, witness=w)
    if n < 4:
        raise AnalysisBroken("cursor pairing: %d cursor fetch sites, 4 confirmed" % n)


def heap_by_tag(ctx, R, prog):
    f = prog.fn("_mi_heap_by_tag")
    cfg = f.cfg
    hp, tg = f.param_id(0), f.param_id(1)
    def own_tag(e, pol):
        if not isinstance(e, int):
            return False
        c = rl.norm_cmp(f, e, pol)
        if c is None or c[0] != "==":
            return False
        for a, b in ((c[1], c[2]), (c[2], c[1])):
            j = f.strip(a)
            if f.nodes[j]["k"] == "MemberExpr" and f.nodes[j]["fld"] == "tag" and f.is_ref(f.nodes[j]["c"][0], hp) and rl.var_of(f, b) == tg:
                return True
        return False
    hit = [(p, q) for p, q, e, pol in rl.edges_with_fact(f, own_tag)]
    ok = bool(hit)
    def is_heap(v):
        return isinstance(v, tuple) and rl.var_of(f, v[1]) == hp
    for p_, q in hit:
        rv = rl.returned_values(f, q, src=p_)
        ok = ok and bool(rv) and all(is_heap(v) for r, v in rv)
    ctx.check(R, ok, f.where(), "on `heap->tag == tag` every return yields `heap` itself", key=R + ":own")
    # and that test comes before any other heap can be chosen: a value other than `heap` (or NULL) is produced — returned
    # directly or assigned to the result variable — only where heap->tag != tag is known
    def not_own(e, pol):
        return isinstance(e, int) and own_tag(e, not pol)
    rvars = {rl.var_of(f, f.nodes[r]["val"]) for r in f.all(kind="ReturnStmt") if "val" in f.nodes[r]} - {None, hp}
    # (a) returns of an expression that is neither `heap`, a constant, nor a variable; (b) every non-constant value other than
    # `heap` given to a variable that is returned (loop cursor or result variable)
    sites = [(r, f.nodes[r]["val"]) for r in f.all(kind="ReturnStmt") if "val" in f.nodes[r] and f.cv(f.nodes[r]["val"]) is None and rl.var_of(f, f.nodes[r]["val"]) is None]
    sites += [(a, rhs) for d_ in rvars for a, rhs, op in f.var_defs(d_) if rhs is not None and f.cv(rhs) is None and rl.var_of(f, rhs) != hp]
    for a, v in sites:
        w = cfg.guarded(cfg.pt(a), not_own)
        ctx.check(R, w is None, f.where(a), "another heap of the thread is chosen only when heap->tag != tag", key=R + ":other", witness=w)
    g = prog.fn("mi_segment_reclaim")
    hp = g.param_id(1)
    for c in g.calls(("_mi_page_reclaim", "mi_page_set_heap")):
        k = 0 if g.nodes[c]["callee"] == "_mi_page_reclaim" else 1
        vals = rl.values_of(g, rl.arg(g, c, k))
        ok = any(rl.is_call(g, v, "_mi_heap_by_tag") and rl.var_of(g, g.nodes[v]["args"][0]) == hp for v in vals) or any(rl.var_of(g, v) == hp for v in vals)
        ctx.check(R, ok, g.where(c), "%s targets _mi_heap_by_tag(heap, page->heap_tag) or heap" % g.nodes[c]["callee"], key=R + ":reclaim")




def absorb_covers_all_queues(ctx, R, prog):
    """C10.R2 / C01.R11: mi_heap_absorb appends every page queue 0..MI_BIN_FULL of the deleted heap (a page left behind keeps xheap pointing at the
    heap structure that mi_heap_delete frees next: a later free in that page writes queue links into freed — possibly re-allocated — memory)"""
    f = prog.fn("mi_heap_absorb")
    full = prog.const("MI_BIN_FULL")
    ok = False
    for L in rl.counted_loops(f):
        if L["first"] is None or f.cv(L["first"]) != 0 or f.cv(L["bound"]) is None:
            continue
        if (L["op"] == "<=" and f.cv(L["bound"]) == full) or (L["op"] == "<" and f.cv(L["bound"]) == full + 1):
            if any(rl.is_call(f, x, "_mi_page_queue_append") for x in f.walk(L["body"])) and f.mentions_decl(L["body"], L["var"]):
                ok = True
    ctx.check(R, ok, f.where(), "the append loop covers bins 0..MI_BIN_FULL (=%d) inclusive" % full, key=R + ":bound")


def rearm_respects_never(ctx, R, prog):
    """C08.R1 / C09.R10: the owner's re-arm of delayed free while draining (_mi_free_delayed_block) must not override MI_NEVER_DELAYED_FREE — that state marks a page whose
    heap is going away (abandon in progress); re-arming it sends the next remote free to a heap's delayed list that nobody will ever drain"""
    f = prog.fn("_mi_free_delayed_block")
    arm = [c for c in f.calls("_mi_page_try_use_delayed_free")]
    ok = len(arm) == 1 and enum_arg_is(f, arm[0], 1, "MI_USE_DELAYED_FREE") and f.cv(rl.arg(f, arm[0], 2)) == 0
    ctx.check(R, ok, f.where(arm[0]) if arm else f.where(), "re-arm with MI_USE_DELAYED_FREE, not overriding NEVER", key=R + ":arm")
    g = prog.fn("_mi_page_try_use_delayed_free")
    # the setter really leaves NEVER alone: on the `old_delay == MI_NEVER_DELAYED_FREE` edge (taken when override_never is false) the CAS is not reached
    never = prog.enums.get("MI_NEVER_DELAYED_FREE")
    cas = [e for e in g.all(kind="AtomicExpr") if g.nodes[e]["aop"].startswith("cas")]
    hit = [q for p, q, e, pol in rl.edges_with_fact(g, lambda e, pol: isinstance(e, int) and rl.establishes(g, e, pol, "==", lambda j: g.cv(j) is None, rl.is_const(g, lambda v: v == never)))]
    ok2 = bool(cas) and bool(hit) and not any(g.cfg.pt(c) in g.cfg.reach([q]) for q in hit for c in cas)
    ctx.check(R, ok2, g.where(), "_mi_page_try_use_delayed_free leaves the flag alone on the `old == MI_NEVER_DELAYED_FREE` edge (no CAS reachable from it)", key=R + ":never_test")


def arena_commit_whole_range(ctx, R, prog):
    """C07.R3 / C13.R5: a claimed arena range that is not fully committed is committed as a whole"""
    h = prog.fn("mi_arena_try_alloc_at")
    # the commit covers the whole claimed range: the committed-bitmap says which blocks were committed *somewhere* in the range, not
    # that they form a prefix, so a commit of anything less than [p, p + block_size(count)) may leave a hole that is then handed out
    commits = [c for c in h.calls(("_mi_os_commit", "_mi_os_commit_ex"))]
    claims2 = [c for c in h.calls("_mi_bitmap_claim_across") if rl.mentions_field_x(h, rl.arg(h, c, 0), "blocks_committed")]
    for c in commits:
        start = rl.canon(h, rl.arg(h, c, 0))
        size = rl.canon(h, rl.arg(h, c, 1)).replace(" ", "")
        ps = [dd for _, dd in rl.var_init_from(h, lambda j: rl.is_call(h, j, "mi_arena_block_start"))]
        cnt = rl.canon(h, rl.arg(h, claims2[0], 2)).replace(" ", "") if claims2 else "?"
        ok_start = bool(ps) and rl.var_of(h, rl.arg(h, c, 0)) == ps[0]["d"]
        ok_size = size == "mi_arena_block_size(%s)" % cnt
        ctx.check(R, ok_start and ok_size, h.where(c), "the commit covers the whole claimed range: (%s, %s) should be (block start, mi_arena_block_size(%s))" % (start, size, cnt),
                  key=R + ":mi_arena_try_alloc_at:range")


def reallocarr_store(ctx, R, prog):
    """C06.R4 / C05.R7: mi_reallocarr writes the caller's pointer slot only with the new block of a successful re-allocation"""
    g = prog.fn("mi_reallocarr")
    cfg = g.cfg
    news = [dd["d"] for _, dd in rl.var_init_from(g, lambda j: rl.is_call(g, j, "mi_reallocarray"))]
    stores = [a for a, lhs, rhs, op in g.stores() if g.nodes[g.strip(lhs)]["k"] == "UnaryOperator" and g.nodes[g.strip(lhs)]["op"] == "*"
              and not g.mentions_call(lhs, "__errno_location")]
    ok = bool(news) and len(stores) == 1
    if ok:
        w = cfg.guarded(cfg.pt(stores[0]), lambda e, pol: isinstance(e, int) and rl.fact_nonnull(g, e, pol, rl.is_var(g, news[0])))
        ok = w is None
    ctx.check(R, ok, g.where(), "*op = newp only when the reallocation succeeded", key=R + ":reallocarr:store")


def segment_commit_after_success(ctx, R, prog):
    """C07.R3 / C13.R7: mi_segment_commit records the range in commit_mask only on the success edge of the OS commit and reports a
    refusal as false — a mask bit set for memory the OS refused is a span that is later used (page initialisation writes into it)
    without any commit"""
    f = prog.fn("mi_segment_commit")
    cfg = f.cfg
    ok_commit = lambda e, pol: isinstance(e, int) and pol and rl.is_call(f, f.strip(e), ("_mi_os_commit", "_mi_os_commit_ex"))
    sets = [c for c in f.calls("mi_commit_mask_set") if f.mentions_field(rl.arg(f, c, 0), "commit_mask")]
    ctx.check(R, len(sets) >= 1, f.where(), "mi_segment_commit records the new commit mask", key=R + ":commit:set")
    for c in sets:
        w = cfg.guarded(cfg.pt(c), ok_commit)
        ctx.check(R, w is None, f.where(c), "commit_mask is extended only on the success edge of _mi_os_commit", key=R + ":commit:guard", witness=w)
    hit = [q for p, q, e, pol in rl.edges_with_fact(f, lambda e, pol: isinstance(e, int) and (not pol) and rl.is_call(f, f.strip(e), ("_mi_os_commit", "_mi_os_commit_ex")))]
    okf = bool(hit)
    for q in hit:
        for r in [cfg.elem_at(p) for p in cfg.reach([q]) if cfg.elem_at(p) is not None and f.nodes[cfg.elem_at(p)]["k"] == "ReturnStmt"]:
            if f.cv(f.nodes[r].get("val", -1)) != 0:
                okf = False
    ctx.check(R, okf, f.where(), "a refused commit makes mi_segment_commit return false", key=R + ":commit:false")


def commit_mask_exact(ctx, R, prog):
    """C01.R12 / C13.R7: the field value mi_commit_mask_create stores for `n` slices starting at bit `ofs` of a field is exactly the
    n bits ofs..ofs+n-1, for every ofs in [0, W) and every remaining count (n = min(count, W - ofs), including the whole field
    n = W, where `1 << n` is not defined) — decided by evaluating the stored expression with lib/absint.py on every point of
    that finite domain. A mask that misses bits of a range leaves a pending purge of live slices un-cancelled (or a commit
    unrecorded): the purge later decommits the middle of a live block."""
    from absint import AV, Interp, Split, Unsupported, AssertionMayFail
    f = prog.fn("mi_commit_mask_create")
    W = prog.const("MI_COMMIT_MASK_FIELD_BITS")
    stores = [(a, lhs, rhs) for a, lhs, rhs, op in f.stores() if op == "=" and f.nodes[f.strip(lhs)]["k"] == "ArraySubscriptExpr" and rl.field_is(f, f.nodes[f.strip(lhs)]["c"][0], "mask")
              and f.cv(rhs) is None]
    ofs = [dd["d"] for _, dd in rl.local_decl(f, lambda dd: dd.get("init") is not None and f.nodes[f.strip(dd["init"])]["k"] == "BinaryOperator"
                                               and f.nodes[f.strip(dd["init"])]["op"] in ("%", "&") and f.mentions_decl(dd["init"], f.param_id(0)))]
    if len(stores) != 1 or len(ofs) != 1 or not W:
        ctx.broke("%s: the field store / the in-field offset of mi_commit_mask_create not found" % R)
        return
    a, lhs, rhs = stores[0]
    bad = None
    n_pts = 0
    M = (1 << W) - 1
    for o in range(W):
        for b in list(range(1, W + 2)) + [prog.const("MI_COMMIT_MASK_BITS")]:
            it = Interp(prog)
            it.lazy_locals = True
            env = {f.param_id(1): AV(b, b, 64, False), ofs[0]: AV(o, o, 64, False)}
            n = min(b, W - o)
            want = (((1 << n) - 1) << o) & M
            n_pts += 1
            try:
                r = it.eval(f, rhs, env, 0)
                got = r.const() if isinstance(r, AV) else None
                if got is None or (got & M) != want:
                    bad = bad or "ofs=%d, count=%d: stored %r, expected %#x" % (o, b, r, want)
            except AssertionMayFail as e:
                bad = bad or "ofs=%d, count=%d: %s" % (o, b, e)
            except (Split, Unsupported) as e:
                ctx.broke("%s: cannot evaluate the stored field value of mi_commit_mask_create (%s)" % (R, e))
                return
    ctx.check(R, bad is None, f.where(a), "∀ ofs ∈ [0,%d), count ≥ 1: the stored field is bits ofs..ofs+min(count,%d-ofs)-1 exactly (%d points evaluated)%s"
              % (W, W, n_pts, "" if bad is None else " — fails at " + bad), key=R + ":mask")
