"""C12 — heap walking reports exactly the live blocks (DESIGN §4 C12). Level: other.

Decided: every queue is walked and the next page saved before the callback (R1), lists are collected before the page is inspected (R2), the
visitor's result is always honoured and the abandoned walk re-marks every segment (R3), free-map index arithmetic and sizes (R4), block
address arithmetic in the dense and sparse branches agree (R5). Not decided: equality of the visited multiset with the live set for every history.
"""
import rl, shared
from facts import AnalysisBroken

LEVEL = "other"


def r1(ctx, prog):
    R = ctx.rule("C12.R1", "mi_heap_visit_pages walks bins 0..MI_BIN_FULL inclusive and reads page->next before invoking the callback (the callback may free the page)")
    f = prog.fn("mi_heap_visit_pages")
    full = prog.const("MI_BIN_FULL")
    ok = False
    for L in rl.counted_loops(f):
        if L["first"] is not None and f.cv(L["first"]) == 0 and ((L["op"] == "<=" and f.cv(L["bound"]) == full) or (L["op"] == "<" and f.cv(L["bound"]) == full + 1)):
            ok = True
    ctx.check(R, ok, f.where(), "loop bound covers bins 0..%d" % full, key="C12.R1:bound")
    calls = [c for c in f.all(kind="CallExpr") if f.nodes[c].get("callee") is None and rl.var_of(f, f.nodes[c]["fn"]) == f.param_id(1)]
    ctx.check(R, len(calls) == 1, f.where(), "one indirect call through the page-visitor parameter", key="C12.R1:call")
    # the local(s) that save page->next: defined (by initialiser or by assignment) from a `->next` read
    saves = [(a, d_) for d_ in {n["d"] for n in f.nodes if n["k"] == "DeclRefExpr" and n.get("dk") == "local"} for a, rhs, op in f.var_defs(d_)
             if rhs is not None and op in ("=", "decl") and rl.field_is(f, rhs, "next")]
    nexts = [d_ for a, d_ in saves]
    is_save = lambda e: any(e == a for a, d_ in saves)
    for c in calls:
        pg = rl.var_of(f, f.nodes[c]["args"][2])
        adv = [a for a, rhs, op in f.var_defs(pg) if op == "=" and rhs is not None and rl.var_of(f, rhs) in nexts] if pg is not None else []
        # since the page variable last changed (loop entry or the advance), the save happens before the callback
        pdefs = [a for a, rhs, op in f.var_defs(pg) if op in ("=", "decl")] if pg is not None else []
        ok = bool(nexts) and bool(adv) and f.cfg.must_pass([f.cfg.after(a) for a in pdefs], [f.cfg.pt(c)], is_save) is None
        ctx.check(R, ok, f.where(c), "page->next is saved in a local before each callback and the walk continues from it", key="C12.R1:next")
        # no read of page-> after the callback
        if pg is not None:
            bad = rl.never_after(f, c, pg)
            ctx.check(R, not bad, f.where(c), "the visited page is not dereferenced after the callback", key="C12.R1:after", witness=[f.loc(b) for b in bad])
    ok2, how = rl.value_checked(f, calls[0]) if calls else (False, "")
    ctx.check(R, ok2, f.where(), "the callback's false result stops the walk (%s)" % how, key="C12.R1:result")
    ctx.floor(R, 5)


def r2(ctx, prog):
    R = ctx.rule("C12.R2", "_mi_heap_area_visit_blocks collects local and thread-free lists (force=true) before it reads page->free / page->used")
    f = prog.fn("_mi_heap_area_visit_blocks")
    pg = f.param_id(1)
    col = [c for c in f.calls("_mi_page_free_collect") if f.cv(rl.arg(f, c, 1)) == 1 and rl.var_of(f, rl.arg(f, c, 0)) == pg]
    ctx.check(R, len(col) == 1, f.where(), "_mi_page_free_collect(page, true) is called", key="C12.R2:call")
    reads = [m for m in f.all(kind="MemberExpr") if f.nodes[m]["fld"] in ("free", "used", "local_free", "capacity") and f.is_ref(f.nodes[m]["c"][0], pg) and f.nodes[m].get("macro") not in ("mi_assert_internal", "mi_assert")]
    bad = []
    for m in reads:
        if col and rl.precedes(f, lambda e: e == col[0], m) is not None:
            bad.append(f.loc(m))
    ctx.check(R, not bad and len(reads) >= 4, f.where(), "every read of page->free/used/capacity (%d) follows the collect" % len(reads), key="C12.R2:order", witness=bad)
    ctx.floor(R, 2)


def indirect_calls(f, pred):
    return [c for c in f.all(kind="CallExpr") if f.nodes[c].get("callee") is None and pred(f.nodes[c]["fn"])]


def r3(ctx, prog):
    R = ctx.rule("C12.R3", "visitor result discipline: every call through a mi_block_visit_fun* is `if (!visitor(..)) return false` or returned; the abandoned walk stops on !ok and re-marks every segment")
    n = 0
    for fname in ("_mi_heap_area_visit_blocks", "mi_heap_area_visitor", "mi_segment_visit_page"):
        f = prog.fn(fname)
        def is_visitor(fnexpr, f=f):
            j = f.strip(fnexpr)
            t = f.nodes[j].get("t", "")
            return "mi_block_visit_fun" in t or rl.field_is(f, j, "visitor")
        for c in indirect_calls(f, is_visitor):
            n += 1
            ok, how = rl.value_checked(f, c)
            good = ok
            if ok and how == "cond":
                # the false edge must return false
                hit = [q for p, q, e, pol in rl.edges_with_fact(f, lambda e, pol, c=c: isinstance(e, int) and (not pol) and f.strip(e) == c)]
                for q in hit:
                    rets = [f.cfg.elem_at(p) for p in f.cfg.reach([q]) if f.cfg.elem_at(p) is not None and f.nodes[f.cfg.elem_at(p)]["k"] == "ReturnStmt"]
                    # the nearest return reached without another visitor call
                    w = f.cfg.must_pass([q], [f.cfg.exit], lambda e: f.nodes[e]["k"] == "ReturnStmt" and f.cv(f.nodes[e].get("val", -1)) == 0)
                    good = good and w is None
            ctx.check(R, good, f.where(c), "visitor call result %s" % ("stops the walk with `return false`" if good else "is not propagated (%s)" % how), key="C12.R3:%s" % fname)
    if n < 6:
        ctx.broke("C12.R3: %d visitor call sites, 6 confirmed on the pinned tree" % n)
    g = prog.fn("mi_abandoned_visit_blocks")
    cfg = g.cfg
    vis = list(g.calls("_mi_segment_visit_blocks"))
    marks = list(g.calls("_mi_arena_segment_mark_abandoned"))
    ctx.check(R, len(vis) == 1 and len(marks) == 1, g.where(), "visit and re-mark present", key="C12.R3:abandoned:shape")
    if vis and marks:
        w = rl.followed_by(g, vis[0], lambda e: e == marks[0])
        ctx.check(R, w is None, g.where(vis[0]), "every visited segment is re-marked abandoned on every path (also when the visitor said stop)", key="C12.R3:abandoned:remark", witness=w)
        u = rl.result_use(g, vis[0])
        okd = isinstance(u, tuple)
        d = rl.var_of(g, u[1]) if (okd and u[0] == "assign") else (u[1] if okd else None)
        loops = [L["node"] for L in g.loops() if d is not None and L["cond"] is not None and g.mentions_decl(L["cond"], d)]
        rets = [r for r in g.all(kind="ReturnStmt") if "val" in g.nodes[r] and rl.var_of(g, g.nodes[r]["val"]) == d]
        ctx.check(R, bool(loops) and bool(rets), g.where(), "the loop stops on !ok and ok is returned", key="C12.R3:abandoned:stop")
    h = prog.fn("_mi_segment_visit_blocks")
    for c in h.calls("mi_segment_visit_page"):
        ok, how = rl.value_checked(h, c)
        ctx.check(R, ok, h.where(c), "segment walk propagates the visitor's result", key="C12.R3:segment")
    ctx.floor(R, 9)


def r4(ctx, prog):
    R = ctx.rule("C12.R4", "free-map arithmetic: the map has MI_MAX_BLOCKS/64 words for the largest possible capacity; word index = idx/64, bit = idx - word*64; left-over bits of the last word are marked free")
    f = prog.fn("_mi_heap_area_visit_blocks")
    small = prog.const("MI_SMALL_PAGE_SIZE")
    bits = 64
    maps = [dd for _, dd in rl.local_decl(f, lambda dd: "arr" in dd and "uintptr_t" in dd["t"])]
    ok = len(maps) == 1 and maps[0]["arr"] * bits >= small // 8
    ctx.check(R, ok, f.where(), "free_map has %s words: room for %d blocks (the smallest block is 8 bytes in a %d byte page)" % (maps[0]["arr"] if maps else "?", small // 8, small), key="C12.R4:size")
    # capacity bound: reserved = page_size/block_size is stored in 16 bits and page kinds bound it by MI_SMALL_PAGE_SIZE/8 (table obligations)
    he = prog.globals.get("_mi_heap_empty", {}).get("val") or {}
    sizes = [p.get("block_size") for p in he.get("pages", []) if isinstance(p, dict)]
    okc = bool(sizes) and min(s for s in sizes if s) >= 8
    medium = prog.const("MI_MEDIUM_PAGE_SIZE")
    small_max = prog.const("MI_SMALL_OBJ_SIZE_MAX")
    okc = okc and medium // (small_max + 1) <= small // 8
    ctx.check(R, okc, "src/init.c _mi_heap_empty", "no page can hold more than %d blocks: smallest bin is %d bytes; medium pages hold at most %d blocks" % (small // 8, min(s for s in sizes if s) if sizes else -1, medium // (small_max + 1)),
              key="C12.R4:capacity")
    bm = [dd for _, dd in rl.local_decl(f, lambda dd: "init" in dd and rl.is_call(f, f.strip(dd["init"]), "_mi_divide_up") and f.mentions_field(dd["init"], "capacity"))]
    ctx.check(R, len(bm) == 1 and f.cv(f.nodes[f.strip(bm[0]["init"])]["args"][1]) == bits, f.where(), "bmapsize = divide_up(capacity, 64)", key="C12.R4:bmapsize")
    # word/bit split
    idxs = [dd for _, dd in rl.local_decl(f, lambda dd: "init" in dd and f.nodes[f.strip(dd["init"])]["k"] == "BinaryOperator" and f.nodes[f.strip(dd["init"])]["op"] == "/" and f.cv(f.nodes[f.strip(dd["init"])]["c"][1]) == bits)]
    ok = False
    for w in idxs:
        src = rl.var_of(f, f.nodes[f.strip(w["init"])]["c"][0])
        pm = {d: "$%d" % k for k, d in enumerate(f.pids)}
        pm[src], pm[w["d"]] = "#idx", "#word"
        for _, b in rl.local_decl(f, lambda dd: "init" in dd):
            t = rl.canon(f, b["init"], pm).replace(" ", "")
            if src is not None and t in ("(#idx-(#word*%d))" % bits, "(#idx-(%d*#word))" % bits, "(#idx%%%d)" % bits):
                ok = True
    ctx.check(R, ok, f.where(), "bit = blockidx - (blockidx/64)*64 (always in [0,63])", key="C12.R4:bit")
    # left-over mask
    ok = any(rl.canon(f, rhs).replace(" ", "").startswith("(18446744073709551615<<") for a, lhs, rhs, op in f.stores() if rhs is not None) or \
        any("init" in dd and rl.canon(f, dd["init"]).replace(" ", "").startswith("(18446744073709551615<<") for _, dd in rl.local_decl(f, lambda dd: True))
    ctx.check(R, ok, f.where(), "bits beyond capacity in the last word are pre-set (UINTPTR_MAX << (capacity % 64))", key="C12.R4:leftover")
    import bounds
    st = bounds.analyse(f)
    ctx.floor(R, 5)


def r5(ctx, prog):
    R = ctx.rule("C12.R5", "block addresses: dense branch advances by bsize per block; sparse branch visits pstart-relative block + bit*bsize and advances by 64*bsize per word; "
                           "the fast division is checked by C16.A7")
    f = prog.fn("_mi_heap_area_visit_blocks")
    bs = [dd["d"] for _, dd in rl.var_init_from(f, lambda j: rl.is_call(f, j, "mi_page_block_size"))]
    if not bs:
        raise AnalysisBroken("C12.R5: bsize local not found")
    b = bs[0]
    adv = [(a, opnd) for a, lhs, kind, opnd in f.updates() if kind == "add" and opnd != 1]
    pm = {d: "$%d" % k for k, d in enumerate(f.pids)}
    pm[b] = "#bsize"
    texts = sorted(rl.canon(f, rhs, pm).replace(" ", "") for a, rhs in adv)
    ok = texts.count("#bsize") >= 2 and any(t in ("(#bsize*64)", "(64*#bsize)") for t in texts)
    ctx.check(R, ok, f.where(), "cursor advances: %s" % texts, key="C12.R5:advance")
    sparse = [c for c in f.all(kind="CallExpr") if f.nodes[c].get("callee") is None and any(f.nodes[x]["k"] == "BinaryOperator" and f.nodes[x]["op"] == "*" and f.mentions_decl(x, b) for x in f.walk(f.nodes[c]["args"][2]))]
    ok = len(sparse) == 1 and any(rl.is_call(f, x, ("mi_ctz", "__builtin_ctzl")) or rl.var_of(f, x) is not None for x in f.walk(f.nodes[sparse[0]]["args"][2]))
    ctx.check(R, ok, f.where(), "sparse branch visits block + bitidx*bsize with bitidx = ctz(mask)", key="C12.R5:sparse")
    sz = [dd["d"] for _, dd in rl.var_init_from(f, lambda j: rl.is_call(f, j, "mi_page_usable_block_size"))]
    calls = indirect_calls(f, lambda fe: True)
    ok = bool(sz) and all(rl.var_of(f, f.nodes[c]["args"][3]) == sz[0] for c in calls)
    ctx.check(R, ok, f.where(), "every visited block is reported with the usable block size", key="C12.R5:size")
    ctx.floor(R, 3)


def r6(ctx, prog):
    R = ctx.rule("C12.R6", "a walk never removes segments from the abandoned set: every segment the cursor hands out is re-marked (or reclaimed) before the next fetch or the return, "
                           "also when the visitor stopped the walk")
    shared.cursor_pairing(ctx, R, prog)
    ctx.floor(R, 4)


def r7(ctx, prog):
    R = ctx.rule("C12.R7", "the walk over abandoned OS segments visits each once: the cursor pops os_list_count times from the *head* of abandoned_os_list and every visited "
                           "segment is re-marked, so marking must append at the *tail* (new segment: next = NULL, becomes the tail; the head changes only when the list "
                           "was empty) — with head insertion the same segment is popped every time and the others are never reported")
    # by role: the marking function is the one that counts a segment into abandoned_os_list_count; the segment is what it makes the tail
    cands = [fn for fn in prog.fns_in("arena-abandon.c", "arena.c", "segment.c") if any(fn.nodes[e]["aop"] == "fetch_add" and fn.mentions_field(fn.nodes[e]["ptr"], "abandoned_os_list_count") for e in fn.all(kind="AtomicExpr"))]
    if len(cands) != 1:
        ctx.broke("C12.R7: the function that appends to abandoned_os_list (increments abandoned_os_list_count) not found (%d candidates)" % len(cands))
        return
    f = cands[0]
    tails = [(a, rl.var_of(f, rhs)) for a, l, rhs, op in f.field_stores("abandoned_os_list_tail") if rhs is not None and rl.var_of(f, rhs) is not None]
    ctx.check(R, len(tails) >= 1, f.where(tails[0][0]) if tails else f.where(), "the marked segment becomes the tail of abandoned_os_list", key="C12.R7:tail")
    seg = tails[0][1] if tails else None
    nexts = [(a, rhs) for a, l, rhs, op in f.field_stores("abandoned_os_next") if seg is not None and rl.var_of(f, f.nodes[l]["c"][0]) == seg]
    ctx.check(R, bool(nexts) and all(rhs is not None and rl.is_null_const(f, rhs) for a, rhs in nexts), f.where(nexts[0][0]) if nexts else f.where(),
              "the marked segment has no successor (segment->abandoned_os_next = NULL)", key="C12.R7:next")
    olds = {dd["d"] for _, dd in rl.local_decl(f, lambda dd: dd.get("init") is not None and f.mentions_field(dd["init"], "abandoned_os_list_tail"))}
    was_empty = lambda e, pol: isinstance(e, int) and any(rl.fact_nonnull(f, e, not pol, rl.is_local(f, d)) for d in olds)
    heads = [a for a, l, rhs, op in f.field_stores("abandoned_os_list")]
    for a in heads:
        w = f.cfg.guarded(f.cfg.pt(a), was_empty)
        ctx.check(R, w is None, f.where(a), "the head of abandoned_os_list is changed only when the old tail was NULL (empty list)", key="C12.R7:head", witness=w)
    g = prog.fn("mi_arena_segment_clear_abandoned_next_list")
    # the segment the cursor hands out is the one it read from the head of the list
    rets = [g.nodes[r]["val"] for r in g.all(kind="ReturnStmt") if g.nodes[r].get("val") is not None and not rl.is_null_const(g, g.nodes[r]["val"])]
    okp = bool(rets) and all(any(g.mentions_field(v, "abandoned_os_list") for v in rl.values_of(g, r)) for r in rets)
    ctx.check(R, okp, g.where(rets[0]) if rets else g.where(), "the cursor hands out the head of abandoned_os_list", key="C12.R7:pop")
    if not heads or not rets:
        ctx.broke("C12.R7: head store of the marking function / the segment returned by the cursor not found")
    ctx.floor(R, 4)


def run(ctx):
    ctx.explanation = ("Static decision of C12's code-shaped necessary conditions: loop bounds and next-saving of the page walk, collect-before-inspect dominance, result discipline of all "
                       "indirect visitor calls, re-marking in the abandoned walk, free-map sizing against the bin table, index/bit split and cursor arithmetic. "
                       "NOT decided: equality of the visited multiset with the live set for every history.")
    for c in (["REL"] if ctx.tier == "quick" else ["REL", "SEC", "DBG"]):
        prog = ctx.prog(c)
        n0 = len(ctx.instances)
        r1(ctx, prog); r2(ctx, prog); r3(ctx, prog); r4(ctx, prog); r5(ctx, prog); r6(ctx, prog); r7(ctx, prog)
        if c != "REL":
            for i in ctx.instances[n0:]:
                i["site"] += " [%s]" % c
                if not i["ok"]:
                    i["key"] += ":" + c
