"""C15 — arena-bound heaps stay inside; exclusive arenas stay private (DESIGN §4 C15). Level: other.

Decided: a suitability test with the requesting heap's arena id guards every hand-over of a span/segment/arena block (R1), no OS
fallback for arena-bound requests (R2), the abandoned-segment cursor of a bound heap is restricted to its arena (R3), the
suitability predicate's DNF (R4), the managed region is trimmed inwards (R5), delete does not migrate across arenas (R6).
"""
import rl, shared
from facts import AnalysisBroken

LEVEL = "other"
SUIT = ("_mi_arena_memid_is_suitable", "_mi_heap_memid_is_suitable", "mi_arena_id_is_suitable")


def _suit_fact(f, want_arg=None):
    """edge fact: a suitability predicate returned true; want_arg = (arg index, predicate on arg node) restricting whose id is tested"""
    def fact(e, pol):
        if not isinstance(e, int) or not pol:
            return False
        j = f.strip(e)
        n = f.nodes[j]
        if n["k"] == "CallExpr" and n.get("callee") in SUIT:
            return want_arg is None or want_arg(f, j)
        # a bool local initialised from the predicate
        d = rl.var_of(f, e)
        if d is not None:
            defs = [rhs for a, rhs, op in f.var_defs(d) if rhs is not None]
            return len(defs) == 1 and rl.is_call(f, f.strip(defs[0]), SUIT) and (want_arg is None or want_arg(f, f.strip(defs[0])))
        return False
    return fact


def _heap_arg0(f, call):
    """suitability is asked for the function's own heap parameter / its req_arena_id parameter"""
    n = f.nodes[call]
    cal = n["callee"]
    if cal == "_mi_heap_memid_is_suitable":
        return rl.var_of(f, n["args"][0]) in f.pids
    last = n["args"][-1]
    return rl.var_of(f, last) in f.pids or f.mentions_field(last, "arena_id")


def r1(ctx, prog):
    R = ctx.rule("C15.R1", "every hand-over of a span / abandoned segment / arena block to a heap is guarded by a suitability test against the "
                           "requesting heap's arena id")
    sites = [("mi_segments_page_find_and_allocate", ("mi_segment_span_allocate", "mi_span_queue_delete")),
             ("_mi_segment_attempt_reclaim", ("mi_segment_reclaim",)),
             ("_mi_abandoned_reclaim_all", ("mi_segment_reclaim",)),
             ("mi_segment_try_reclaim", ("mi_segment_reclaim",)),
             ("mi_arena_try_alloc_at_id", ("mi_arena_try_alloc_at",))]
    for fname, callees in sites:
        f = prog.fn(fname)
        cfg = f.cfg
        cs = list(f.calls(callees))
        if not cs:
            ctx.broke("C15.R1: %s no longer calls %s" % (fname, callees))
        for c in cs:
            if f.nodes[c]["callee"] == "mi_segment_reclaim" and cfg.guarded(cfg.pt(c), rl.fact_field_eq(f, "used", 0)) is None:
                ctx.ok(R, f.where(c), "reclaim of an empty segment only releases it (segment->used == 0 edge)")
                continue
            w = cfg.guarded(cfg.pt(c), _suit_fact(f, _heap_arg0))
            ctx.check(R, w is None, f.where(c), "%s only on the true edge of a suitability test for the requesting heap/arena id" % f.nodes[c]["callee"],
                      key="C15.R1:%s" % fname, witness=w)
    for c in rl.callers_of(prog, "mi_arena_try_alloc_at"):
        ctx.check(R, c == "mi_arena_try_alloc_at_id", prog.fn(c).where(), "mi_arena_try_alloc_at is reached only through mi_arena_try_alloc_at_id", key="C15.R1:caller:%s" % c)
    g = prog.fn("_mi_heap_memid_is_suitable")
    ok = any(rl.is_call(g, x, "_mi_arena_memid_is_suitable") and g.mentions_field(g.nodes[x]["args"][1], "arena_id") for x in g.all(kind="CallExpr"))
    ctx.check(R, ok, g.where(), "_mi_heap_memid_is_suitable tests against heap->arena_id", key="C15.R1:heap_suitable")
    g = prog.fn("_mi_arena_memid_is_suitable")
    ok = all(rl.var_of(g, g.nodes[c]["args"][2]) == g.param_id(1) for c in g.calls("mi_arena_id_is_suitable")) and any(True for _ in g.calls("mi_arena_id_is_suitable"))
    ctx.check(R, ok, g.where(), "_mi_arena_memid_is_suitable forwards the requested arena id", key="C15.R1:memid_suitable")
    # arena id plumbing from the heap into the segment layer
    for fname, callee, k in (("mi_segments_page_alloc", "mi_segments_page_find_and_allocate", 1), ("mi_segment_reclaim_or_alloc", "mi_segment_alloc", 2),
                             ("mi_segment_huge_page_alloc", "mi_segment_alloc", 2)):
        f = prog.fn(fname)
        for c in f.calls(callee):
            a = rl.arg(f, c, k)
            ok = f.mentions_field(a, "arena_id") or (rl.var_of(f, a) in f.pids)
            ctx.check(R, ok, f.where(c), "%s receives the heap's arena id (%s)" % (callee, f.text(a)), key="C15.R1:plumb:%s" % fname)
    ctx.floor(R, 14)


def _is_none_cmp(f, e, pol, d, want_eq):
    if not isinstance(e, int):
        return False
    c = rl.norm_cmp(f, e, pol)
    if c is None or c[0] not in ("==", "!="):
        return False
    for a, b in ((c[1], c[2]), (c[2], c[1])):
        if (f.is_ref(a, d) if isinstance(d, int) else d(f, a)) and (rl.is_call(f, f.strip(b), "_mi_arena_id_none") or f.cv(b) == 0):
            return (c[0] == "==") == want_eq
    return False


def r2(ctx, prog):
    R = ctx.rule("C15.R2", "no OS fallback and no fresh arena for an arena-bound request: OS allocation and mi_arena_reserve only when req_arena_id == none")
    f = prog.fn("_mi_arena_alloc_aligned")
    cfg = f.cfg
    req = f.param_id(5)
    oscalls = list(f.calls(("_mi_os_alloc_aligned", "_mi_os_alloc_aligned_at_offset", "_mi_os_alloc")))
    if not oscalls:
        ctx.broke("C15.R2: no OS allocation call in _mi_arena_alloc_aligned")
    for c in oscalls:
        w = cfg.guarded(cfg.pt(c), lambda e, pol: _is_none_cmp(f, e, pol, req, True))
        ctx.check(R, w is None, f.where(c), "%s only on the `req_arena_id == none` edge" % f.nodes[c]["callee"], key="C15.R2:os", witness=w)
        w = cfg.guarded(cfg.pt(c), lambda e, pol: isinstance(e, int) and (not pol) and rl.is_option_get(f, e, "mi_option_disallow_os_alloc"))
        ctx.check(R, w is None, f.where(c), "%s only when disallow_os_alloc is off" % f.nodes[c]["callee"], key="C15.R2:os:option", witness=w)
    for c in f.calls("mi_arena_reserve"):
        w = cfg.guarded(cfg.pt(c), lambda e, pol: _is_none_cmp(f, e, pol, req, True))
        ctx.check(R, w is None, f.where(c), "mi_arena_reserve only on the `req_arena_id == none` edge", key="C15.R2:reserve", witness=w)
    for c in f.calls("mi_arena_try_alloc"):
        ctx.check(R, f.is_ref(rl.arg(f, c, 5), req), f.where(c), "mi_arena_try_alloc gets the caller's req_arena_id", key="C15.R2:forward")
    g = prog.fn("mi_arena_try_alloc")
    cfg = g.cfg
    req = g.param_id(5)
    for c in g.calls("mi_arena_try_alloc_at_id"):
        ctx.check(R, g.is_ref(rl.arg(g, c, 7), req), g.where(c), "mi_arena_try_alloc_at_id gets req_arena_id", key="C15.R2:forward2")
        if g.cfg.in_loop(c):
            w = cfg.guarded(cfg.pt(c), lambda e, pol: _is_none_cmp(g, e, pol, req, True))
            ctx.check(R, w is None, g.where(c), "the all-arenas loops run only for req_arena_id == none", key="C15.R2:loops", witness=w)
        else:
            ctx.check(R, g.is_ref(rl.arg(g, c, 0), req), g.where(c), "the specific-arena attempt targets req_arena_id itself", key="C15.R2:specific")
    ctx.floor(R, 9)


def r3(ctx, prog):
    R = ctx.rule("C15.R3", "abandoned-segment cursor of an arena-bound heap: start = index(heap->arena_id), end = start+1, os_list_count = 0")
    f = prog.fn("_mi_arena_field_cursor_init")
    cfg = f.cfg
    isarena = lambda fn, a: rl.field_is(fn, a, "arena_id")
    hit = [q for p, q, e, pol in rl.edges_with_fact(f, lambda e, pol: _is_none_cmp(f, e, pol, isarena, False))]
    if not hit:
        ctx.fail(R, f.where(), "no branch on heap->arena_id != none", key="C15.R3:nobranch")
        return
    goals = cfg.exit_points()
    def st(fld, pred):
        return lambda e: f.nodes[e]["k"] == "BinaryOperator" and f.nodes[e]["op"] == "=" and rl.field_is(f, f.nodes[e]["c"][0], fld) and pred(f.nodes[e]["c"][1])
    checks = [("start", st("start", lambda r: rl.is_call(f, f.strip(r), "mi_arena_id_index") and f.mentions_field(r, "arena_id")), "start = mi_arena_id_index(heap->arena_id)"),
              ("end", st("end", lambda r: rl.canon(f, r) in ("($3->start + 1)", "(1 + $3->start)")), "end = start + 1"),
              ("os_list_count", st("os_list_count", lambda r: f.cv(r) == 0), "os_list_count = 0")]
    for fld, pred, what in checks:
        w = None
        for q in hit:
            w = w or cfg.must_pass([q], goals, pred)
        ctx.check(R, w is None, f.where(), "bound heap: %s on every path" % what, key="C15.R3:%s" % fld, witness=w)
        # and no other store to that field on the bound path
        others = [e for e in f.all() if st(fld, lambda r: True)(e) and not pred(e)]
        bad = [o for o in others if any(cfg.reaches(q, cfg.pt(o)) for q in hit)]
        ctx.check(R, not bad, f.where(), "bound heap: %s is not overwritten" % fld, key="C15.R3:%s:over" % fld)
    ctx.floor(R, 6)


def r4(ctx, prog):
    R = ctx.rule("C15.R4", "mi_arena_id_is_suitable(id, exclusive, req) == (!exclusive && req == none) || (id == req)")
    f = prog.fn("mi_arena_id_is_suitable")
    rets = [r for r in f.all(kind="ReturnStmt")]
    want = frozenset([frozenset([("$1", False), ("$2 == _mi_arena_id_none()", True)]), frozenset([("$0 == $2", True)])])
    got = rl.dnf(f, f.nodes[rets[0]]["val"]) if len(rets) == 1 else None
    ctx.check(R, got == want, f.where(), "DNF of the predicate: %s" % (sorted(sorted(x) for x in got) if got else "?"), key="C15.R4:dnf")
    none = prog.fn("_mi_arena_id_none")
    ok = all(none.cv(none.nodes[r]["val"]) == 0 for r in none.all(kind="ReturnStmt"))
    ctx.check(R, ok, none.where(), "_mi_arena_id_none() is the constant 0 (ids start at 1)", key="C15.R4:none")
    cr = prog.fn("mi_arena_id_create")
    ok = all(rl.canon(cr, cr.nodes[r]["val"]) in ("($0 + 1)", "(1 + $0)") for r in cr.all(kind="ReturnStmt"))
    ctx.check(R, ok, cr.where(), "arena ids are index+1 (never the `none` value)", key="C15.R4:create")
    ctx.floor(R, 3)


def r5(ctx, prog):
    R = ctx.rule("C15.R5", "a managed region is trimmed inwards: start aligned up, size reduced by the same amount, block count rounded down, left-over bits blocked")
    f = prog.fn("mi_manage_os_memory_ex2")
    cfg = f.cfg
    p_start, p_size = f.param_id(0), f.param_id(1)
    bc = [dd for _, dd in rl.local_decl(f, lambda dd: dd["n"] == "bcount" or ("init" in dd and f.nodes[f.strip(dd["init"])]["k"] == "BinaryOperator" and
                                                                              f.nodes[f.strip(dd["init"])]["op"] == "/" and f.is_ref(f.nodes[f.strip(dd["init"])]["c"][0], p_size)))]
    blk = prog.const("MI_ARENA_BLOCK_SIZE")
    ok = False
    for dd in bc:
        i = f.strip(dd["init"])
        n = f.nodes[i]
        if n["k"] == "BinaryOperator" and n["op"] == "/" and f.is_ref(n["c"][0], p_size) and f.cv(n["c"][1]) == blk:
            ok = True
            bc_d = dd["d"]
    ctx.check(R, ok, f.where(), "block count = size / MI_ARENA_BLOCK_SIZE (rounded down, never _mi_divide_up)", key="C15.R5:bcount")
    if ok:
        # ... of the *trimmed* size: no change of size (or start) can follow the computation of the block count
        bdef = next(a for a, rhs, op in f.var_defs(bc_d) if op == "decl")
        late = [a for d_ in (p_size, p_start) for a, rhs, op in f.var_defs(d_) if op != "addr" and cfg.reaches(cfg.after(bdef), cfg.pt(a))]
        # (with a helper that trims through &start/&size the stores are seen here after inlining; a helper that is not inlined shows as `addr`)
        late += [a for d_ in (p_size, p_start) for a, rhs, op in f.var_defs(d_) if op == "addr" and cfg.pt(a) is not None and cfg.reaches(cfg.after(bdef), cfg.pt(a))]
        ctx.check(R, not late, f.where(bdef), "the block count is computed from the size after the alignment trim (no later change of start/size%s)" % (": " + f.loc(late[0]) if late else ""),
                  key="C15.R5:bcount:fresh")
    # start re-assigned only from an align-up of itself; size only reduced by (aligned_start - start)
    import re as _re
    up = r"(?:mi_align_up_ptr|_mi_align_up)\(\$0,\d+\)"
    for a, rhs, op in f.var_defs(p_start):
        if op == "addr":
            continue     # `&start` handed to a private helper: the helper's stores are seen here after inlining
        t = rl.canon(f, rhs).replace(" ", "") if rhs is not None else "?"      # temporaries (also a helper's copies of start/size) expanded
        ctx.check(R, bool(_re.fullmatch(up, t)), f.where(a), "start is only moved up by alignment: %s" % t, key="C15.R5:start")
    for a, rhs, op in f.var_defs(p_size):
        if op == "addr":
            continue
        t = rl.canon(f, rhs).replace(" ", "") if rhs is not None else "?"
        ctx.check(R, op == "=" and bool(_re.fullmatch(r"\(\$1-\(%s-\$0\)\)" % up, t)), f.where(a), "size is only reduced by the alignment difference: %s" % t, key="C15.R5:size")
    # moving the start and shrinking the size go together on every path
    sdefs_ = [a for a, rhs, op in f.var_defs(p_start) if op == "="]
    zdefs_ = [a for a, rhs, op in f.var_defs(p_size) if op == "="]
    for a in sdefs_:
        paired = cfg.must_pass([cfg.after(a)], cfg.exit_points(), lambda e: e in zdefs_, edge_ok=None) is None or rl.precedes(f, lambda e: e in zdefs_, a) is None
        # (an exit that gives up — `return false` — needs no size)
        if not paired:
            paired = all(rl.returns_only(f, cfg.after(a), 0) for _ in [0]) if not any(cfg.reaches(cfg.after(a), cfg.pt(z)) for z in zdefs_) else \
                cfg.must_pass([cfg.after(a)], [p_ for p_ in cfg.exit_points()], lambda e: e in zdefs_ or (f.nodes[e]["k"] == "ReturnStmt" and f.cv(f.nodes[e].get("val", -1)) == 0)) is None
        ctx.check(R, paired, f.where(a), "when the start is moved up the size is reduced on the same path", key="C15.R5:pair")
    # left-over bits
    claims = [c for c in f.calls("_mi_bitmap_claim") if f.mentions_field(rl.arg(f, c, 0), "blocks_inuse")]
    ctx.check(R, len(claims) >= 1, f.where(), "left-over bits of the last bitmap field are claimed in blocks_inuse", key="C15.R5:leftover")
    for c in claims:
        cnt = rl.var_of(f, rl.arg(f, c, 2))
        defs = [rhs for a, rhs, op in f.var_defs(cnt) if rhs is not None] if cnt is not None else []
        bits = prog.const("MI_BITMAP_FIELD_BITS")
        # the subtrahend is the block count: the local itself, or arena->block_count which was stored from it
        stored = any(rl.var_of(f, rhs_) == bc_d for a_, l_, rhs_, op_ in f.field_stores("block_count") if rhs_ is not None)
        sub = f.nodes[f.strip(defs[0])]["c"][1] if len(defs) == 1 and f.nodes[f.strip(defs[0])]["k"] == "BinaryOperator" and f.nodes[f.strip(defs[0])]["op"] == "-" else None
        ok = sub is not None and (rl.var_of(f, sub) == bc_d or (stored and rl.canon(f, sub).endswith("->block_count"))) and any(f.cv(x) == bits for x in f.walk(defs[0]))
        ctx.check(R, ok, f.where(c), "count = fields*MI_BITMAP_FIELD_BITS - bcount", key="C15.R5:post")
        idx = rl.values_of(f, rl.arg(f, c, 3))
        ok = any(rl.is_call(f, v, "mi_bitmap_index_create") and rl.canon(f, f.nodes[v]["args"][1]).replace(" ", "") in ("(%d-post)" % bits,) for v in idx)
        okg = any(rl.is_call(f, v, "mi_bitmap_index_create") for v in idx)
        ctx.check(R, okg, f.where(c), "index = create(fields-1, MI_BITMAP_FIELD_BITS - post)", key="C15.R5:postidx")
    ctx.floor(R, 6)


def r6(ctx, prog):
    R = ctx.rule("C15.R6", "heaps of different arenas are not compatible: delete does not migrate pages across arenas")
    comp = prog.fn("mi_heaps_are_compatible")
    ok = any(rl.cmp_parts(comp, x) and rl.cmp_parts(comp, x)[0] == "==" and rl.field_is(comp, rl.cmp_parts(comp, x)[1], "arena_id") and
             rl.field_is(comp, rl.cmp_parts(comp, x)[2], "arena_id") for r in comp.all(kind="ReturnStmt") for x in comp.walk(r))
    ctx.check(R, ok, comp.where(), "mi_heaps_are_compatible requires equal arena_id", key="C15.R6")
    f = prog.fn("mi_heap_new_ex")
    aid = [f.param_id(k) for k, p in enumerate(f.d["params"]) if p["t"] == "mi_arena_id_t"]
    ok = any(any(rl.var_of(f, a) in aid for a in f.nodes[c]["args"]) for c in f.calls("_mi_heap_init"))
    ctx.check(R, ok, f.where(), "mi_heap_new_ex passes its arena id to _mi_heap_init", key="C15.R6:new")
    g = prog.fn("_mi_heap_init")
    aid = [g.param_id(k) for k, p in enumerate(g.d["params"]) if p["t"] == "mi_arena_id_t"]
    ok = any(rl.var_of(g, rhs) in aid for a, l, rhs, op in g.field_stores("arena_id") if rhs is not None)
    ctx.check(R, ok, g.where(), "_mi_heap_init records heap->arena_id from its parameter", key="C15.R6:init")
    ctx.floor(R, 3)


def r7(ctx, prog):
    R = ctx.rule("C15.R7", "reclaimed pages go to the heap the suitability test was made for: _mi_heap_by_tag(heap, tag) returns `heap` itself whenever heap->tag == tag, "
                           "and mi_segment_reclaim places pages only through it (or into `heap`)")
    shared.heap_by_tag(ctx, R, prog)
    ctx.floor(R, 3)


def run(ctx):
    ctx.explanation = ("Static decision of C15's code-shaped necessary conditions: guarded-by analysis of every hand-over site against a suitability "
                       "test bound to the requesting heap's arena id, OS-fallback and reserve guards, cursor restriction stores, DNF of the suitability "
                       "predicate, inward trimming of managed regions. NOT decided: containment of every returned address for every history.")
    for c in (["REL"] if ctx.tier == "quick" else ["REL", "SEC", "DBG"]):
        prog = ctx.prog(c)
        n0 = len(ctx.instances)
        r1(ctx, prog); r2(ctx, prog); r3(ctx, prog); r4(ctx, prog); r5(ctx, prog); r6(ctx, prog); r7(ctx, prog)
        if c != "REL":
            for i in ctx.instances[n0:]:
                i["site"] += " [%s]" % c
                if not i["ok"]:
                    i["key"] += ":" + c
