"""C10 — heaps: delete migrates, destroy frees exactly its own (DESIGN §4 C10). Level: other.

Decided: delete shape (R1), absorb order (R2), destroy touches own pages only + no foreign page can enter a destroyable heap (R3),
ownership queries (R4), a live page leaves its heap only with the heap (R5; known finding F9).
Not decided: safety of delete/collect against in-flight remote frees over schedules.
"""
import rl, shared
from facts import AnalysisBroken

LEVEL = "other"


def r1(ctx, prog):
    R = ctx.rule("C10.R1", "mi_heap_delete absorbs only into a compatible backing heap, otherwise abandons; the heap is unlinked, the default reset, "
                           "and mi_free(heap) is the last access")
    f = prog.fn("mi_heap_delete")
    cfg = f.cfg
    for c in f.calls("mi_heap_absorb"):
        w = cfg.guarded(cfg.pt(c), rl.fact_call_true(f, "mi_heaps_are_compatible"))
        ctx.check(R, w is None, f.where(c), "mi_heap_absorb only on the mi_heaps_are_compatible edge", key="C10.R1:absorb:compat", witness=w)
        def differs(e, pol):
            if not isinstance(e, int):
                return False
            cc = rl.norm_cmp(f, e, pol)
            return cc is not None and cc[0] == "!=" and (f.is_ref(cc[1], f.param_id(0)) or f.is_ref(cc[2], f.param_id(0)))
        w = cfg.guarded(cfg.pt(c), differs)
        ctx.check(R, w is None, f.where(c), "a heap is never absorbed into itself (bheap != heap)", key="C10.R1:absorb:self", witness=w)
    # past the initialisation test, every path moves the pages (absorb or abandon) and then frees the heap
    frees = list(f.calls("mi_heap_free"))
    ctx.check(R, len(frees) >= 1, f.where(), "mi_heap_delete calls mi_heap_free", key="C10.R1:free")
    for c in frees:
        w = rl.precedes(f, rl.call_to(("mi_heap_absorb", "_mi_heap_collect_abandon"))(f), c)
        ctx.check(R, w is None, f.where(c), "pages are absorbed or abandoned before mi_heap_free on every path", key="C10.R1:move_before_free", witness=w)
    comp = prog.fn("mi_heaps_are_compatible")
    rets = [r for r in comp.all(kind="ReturnStmt")]
    ok = len(rets) == 1 and all(_cmp_same_field(comp, rets[0], fld) for fld in ("tag", "arena_id"))
    ctx.check(R, ok, comp.where(), "compatibility = same tag and same arena_id", key="C10.R1:compatible")
    g = prog.fn("mi_heap_free")
    cfg = g.cfg
    d = g.param_id(0)
    for c in g.calls("mi_free"):
        if g.is_ref(rl.arg(g, c, 0), d):
            bad = rl.never_after(g, c, d)
            ctx.check(R, not bad, g.where(c), "heap is not accessed after mi_free(heap)", key="C10.R1:uaf", witness=[g.loc(b) for b in bad])
            w = rl.precedes(g, lambda e: g.nodes[e]["k"] == "BinaryOperator" and g.nodes[e]["op"] == "=" and
                            (rl.field_is(g, g.nodes[e]["c"][0], "next") or rl.field_is(g, g.nodes[e]["c"][0], "heaps")), c,
                            edge_ok=lambda lab, p, q: True)
            # unlink is conditional on `curr == heap` (asserted); require that the unlink stores exist and precede the free
            unl = [a for a, l, rhs, op in g.stores() if rl.field_is(g, l, "heaps") or rl.field_is(g, l, "next")]
            later = [u for u in unl if cfg.reaches(cfg.after(c), cfg.pt(u))]
            ctx.check(R, len(unl) >= 2 and not later, g.where(c), "the heap is unlinked from tld->heaps before it is freed", key="C10.R1:unlink")
    hit = [q for p, q, e, pol in rl.edges_with_fact(g, rl.fact_call_true(g, "mi_heap_is_default"))]
    ok = bool(hit) and all(cfg.must_pass([q], cfg.exit_points(), rl.call_to("_mi_heap_set_default_direct")(g)) is None for q in hit)
    ctx.check(R, ok, g.where(), "deleting the default heap resets the default to the backing heap", key="C10.R1:default")
    for c in g.calls("_mi_heap_set_default_direct"):
        ctx.check(R, g.mentions_field(rl.arg(g, c, 0), "heap_backing"), g.where(c), "new default is tld->heap_backing", key="C10.R1:default:backing")
    ctx.floor(R, 9)


def _cmp_same_field(fn, root, fld):
    for x in fn.walk(root):
        c = rl.cmp_parts(fn, x)
        if c and c[0] == "==" and rl.field_is(fn, c[1], fld) and rl.field_is(fn, c[2], fld):
            return True
    return False


def r2(ctx, prog):
    R = ctx.rule("C10.R2", "absorb: queues 0..MI_BIN_FULL appended ≺ _mi_heap_delayed_free_all(from) ≺ mi_heap_reset_pages(from)")
    f = prog.fn("mi_heap_absorb")
    cfg = f.cfg
    shared.absorb_covers_all_queues(ctx, R, prog)
    apps = list(f.calls("_mi_page_queue_append"))
    for c in f.calls("_mi_heap_delayed_free_all"):
        later = [a for a in apps if cfg.reaches(cfg.after(c), cfg.pt(a))]
        ctx.check(R, not later and f.is_ref(rl.arg(f, c, 0), f.param_id(1)), f.where(c), "no queue is appended after the delayed frees of `from` were drained", key="C10.R2:order1")
    for c in f.calls("mi_heap_reset_pages"):
        w = rl.precedes(f, rl.call_to("_mi_heap_delayed_free_all")(f), c)
        ctx.check(R, w is None and f.is_ref(rl.arg(f, c, 0), f.param_id(1)), f.where(c), "_mi_heap_delayed_free_all(from) precedes mi_heap_reset_pages(from)", key="C10.R2:order2", witness=w)
        later = [a for a in apps if cfg.reaches(cfg.after(c), cfg.pt(a))]
        ctx.check(R, not later and bool(apps), f.where(c), "no queue is appended after `from` was reset", key="C10.R2:order3")
    ctx.floor(R, 4)


def r3(ctx, prog):
    R = ctx.rule("C10.R3", "destroy frees only the heap's own pages: proceeds only on heap->no_reclaim, visits the heap's own queues, frees exactly the "
                           "visited page after never-delayed + used=0; and no page of another thread can enter a no_reclaim heap")
    f = prog.fn("mi_heap_destroy")
    cfg = f.cfg
    for c in f.calls("_mi_heap_destroy_pages"):
        w = cfg.guarded(cfg.pt(c), rl.fact_field_true(f, "no_reclaim"))
        ctx.check(R, w is None and f.is_ref(rl.arg(f, c, 0), f.param_id(0)), f.where(c), "_mi_heap_destroy_pages(heap) only on the heap->no_reclaim edge", key="C10.R3:guard", witness=w)
    hit = [q for p, q, e, pol in rl.edges_with_fact(f, rl.fact_field_false(f, "no_reclaim"))]
    ok = bool(hit) and all(cfg.must_pass([q], cfg.exit_points(), rl.call_to("mi_heap_delete")(f)) is None for q in hit)
    ctx.check(R, ok, f.where(), "a heap that may hold reclaimed pages is deleted, not destroyed", key="C10.R3:fallback")
    g = prog.fn("_mi_heap_destroy_pages")
    ok = any(shared.visits_with(g, "_mi_heap_page_destroy")(c) and g.is_ref(rl.arg(g, c, 0), g.param_id(0)) for c in g.calls("mi_heap_visit_pages"))
    ctx.check(R, ok, g.where(), "visits the pages of its own heap argument with _mi_heap_page_destroy", key="C10.R3:visit")
    h = prog.fn("_mi_heap_page_destroy")
    pg = h.param_id(2)
    for c in h.calls("_mi_segment_page_free"):
        ctx.check(R, h.is_ref(rl.arg(h, c, 0), pg), h.where(c), "frees exactly the visited page", key="C10.R3:page")
        w = rl.precedes(h, rl.store_field_const(h, "used", 0), c)
        ctx.check(R, w is None, h.where(c), "page->used = 0 precedes the free", key="C10.R3:used0", witness=w)
        w = rl.precedes(h, shared.never_delayed_call(h), c)
        ctx.check(R, w is None, h.where(c), "MI_NEVER_DELAYED_FREE precedes the free", key="C10.R3:never", witness=w)
    shared.adopter_may_adopt(ctx, R, prog)
    # mi_heap_new creates destroyable heaps: allow_destroy=true -> no_reclaim=true
    hn = prog.fn("_mi_heap_init")
    st = [(a, rhs) for a, l, rhs, op in hn.field_stores("no_reclaim") if rhs is not None]
    ctx.check(R, bool(st), hn.where(), "_mi_heap_init records no_reclaim from its parameter", key="C10.R3:init")
    ctx.floor(R, 14)


def r4(ctx, prog):
    R = ctx.rule("C10.R4", "ownership queries compare against the page's heap / the page's block area")
    f = prog.fn("mi_heap_contains_block")
    rets = [r for r in f.all(kind="ReturnStmt") if "val" in f.nodes[r] and f.cv(f.nodes[r]["val"]) is None]
    ok = bool(rets) and all(_is_heap_eq(prog, f, r) for r in rets)
    ctx.check(R, ok, f.where(), "returns heap == heap-of-block(p)", key="C10.R4:contains")
    g = prog.fn("mi_heap_of_block")
    ok = any(rl.is_call(g, x, "mi_page_heap") for r in g.all(kind="ReturnStmt") for x in g.walk(r)) and \
         any(rl.is_call(g, x, "_mi_segment_page_of") for x in g.all(kind="CallExpr"))
    ctx.check(R, ok, g.where(), "heap of block = mi_page_heap(_mi_segment_page_of(segment, p))", key="C10.R4:of_block")
    h = prog.fn("mi_heap_page_check_owned")
    # end = start + capacity*block_size ; found = p >= start && p < end
    ends = [dd for _, dd in rl.local_decl(h, lambda dd: "init" in dd and h.mentions_field(dd["init"], "capacity") and
                                          (h.mentions_call(dd["init"], "mi_page_block_size") or h.mentions_field(dd["init"], "block_size")))]
    starts = [dd for _, dd in rl.var_init_from(h, lambda j: rl.is_call(h, j, "mi_page_start"))]
    ok = False
    if ends and starts:
        e_d, s_d = ends[0]["d"], starts[0]["d"]
        ok_start = h.mentions_decl(ends[0]["init"], s_d)
        # the answer stored / returned is exactly the conjunction start <= p && p < end (however it is spelled)
        pm = {d: "$%d" % k for k, d in enumerate(h.pids)}
        pm[s_d], pm[e_d] = "#start", "#end"
        ptrs = [pm[d] for d in h.pids if pm[d] != "$0"]
        want = [frozenset([frozenset([("#start <= %s" % p_, True), ("%s < #end" % p_, True)])]) for p_ in ptrs]
        cands = [rhs for a, l, rhs, op in h.stores() if op == "=" and rhs is not None] + [h.nodes[r]["val"] for r in h.all(kind="ReturnStmt") if "val" in h.nodes[r]] + \
                [dd["init"] for _, dd in rl.local_decl(h, lambda dd: "init" in dd)]
        ok = ok_start and any(rl.dnf(h, x, pmap=pm) in want for x in cands)
    ctx.check(R, ok, h.where(), "owned iff start <= p < start + capacity*block_size", key="C10.R4:check_owned")
    ctx.floor(R, 3)


def _is_heap_eq(prog, f, r):
    c = rl.cmp_parts(f, f.nodes[r]["val"])
    if not c or c[0] != "==":
        return False
    sides = (c[1], c[2])
    return any(f.is_ref(s, f.param_id(0)) for s in sides) and any(rl.is_call(f, f.strip(s), ("mi_heap_of_block", "mi_page_heap")) for s in sides)


def r5(ctx, prog):
    R = ctx.rule("C10.R5", "a page with live blocks leaves its heap (_mi_page_abandon: xheap=NULL) only together with the heap: "
                           "only from mi_heap_collect_ex(MI_ABANDON), itself only from thread exit / delete")
    callers = rl.callers_of(prog, "_mi_page_abandon")
    if not callers:
        raise AnalysisBroken("no caller of _mi_page_abandon")
    for c in callers:
        f = prog.fn(c)
        ctx.check(R, c == "mi_heap_page_collect", f.where(), "%s -> _mi_page_abandon: live pages are detached from their heap outside thread exit / heap delete" % c
                  if c != "mi_heap_page_collect" else "mi_heap_page_collect -> _mi_page_abandon (under collect == MI_ABANDON, see C09.R2)",
                  key="C10.R5:%s" % c)
    for c in rl.callers_of(prog, "_mi_heap_collect_abandon"):
        ctx.check(R, c in ("mi_heap_delete", "_mi_thread_heap_done"), prog.fn(c).where(), "%s -> _mi_heap_collect_abandon" % c, key="C10.R5:abandon_caller:%s" % c)
    f = prog.fn("mi_heap_collect_ex")
    # MI_ABANDON is passed only by _mi_heap_collect_abandon
    n = 0
    for g in prog.fns.values():
        for c in g.calls("mi_heap_collect_ex"):
            if shared.enum_arg_is(g, c, 1, "MI_ABANDON"):
                n += 1
                ctx.check(R, g.name == "_mi_heap_collect_abandon", g.where(c), "mi_heap_collect_ex(.., MI_ABANDON) from %s" % g.name, key="C10.R5:abandon_arg:%s" % g.name)
    ctx.floor(R, 4)


def r6(ctx, prog):
    R = ctx.rule("C10.R6", "adopted pages go to the heap that asked (and was checked for no_reclaim): _mi_heap_by_tag(heap, tag) returns `heap` itself whenever the tag matches — "
                           "otherwise pages of an exited thread land in a destroyable heap and mi_heap_destroy frees live blocks")
    shared.heap_by_tag(ctx, R, prog)
    ctx.floor(R, 3)


def r7(ctx, prog):
    R = ctx.rule("C10.R7", "heap meta-data outlives every destroyable heap: mi_heap_new_ex allocates the mi_heap_t from the thread's *backing* heap (which is never destroyed or "
                           "deleted before the thread ends) — taken from the current default heap it would be freed by mi_heap_destroy of that heap while still in use")
    f = prog.fn("mi_heap_new_ex")
    allocs = [c for c in f.calls() if (f.nodes[c].get("callee") or "").startswith(("mi_heap_malloc", "mi_heap_zalloc", "mi_heap_calloc", "_mi_heap_malloc"))]
    if not allocs:
        ctx.broke("C10.R7: no heap allocation of the mi_heap_t in mi_heap_new_ex")
    for c in allocs:
        vals = rl.values_of(f, rl.arg(f, c, 0))
        ok = any(rl.is_call(f, v, "mi_heap_get_backing") for v in vals) or any(rl.field_is(f, v, "heap_backing") for v in vals)
        ctx.check(R, ok, f.where(c), "the new heap's structure is allocated from mi_heap_get_backing() (found: %s)" % [f.text(v)[:40] for v in vals][:3], key="C10.R7:backing")
    g = prog.fn("mi_heap_get_backing")
    ok = any(rl.field_is(g, v, "heap_backing") for r in g.all(kind="ReturnStmt") if "val" in g.nodes[r] for v in rl.values_of(g, g.nodes[r]["val"]))
    ctx.check(R, ok, g.where(), "mi_heap_get_backing returns tld->heap_backing", key="C10.R7:get_backing")
    ctx.floor(R, 2)


def run(ctx):
    ctx.explanation = ("Static decision of C10's code-shaped necessary conditions on every CFG path of heap delete/absorb/destroy and of the ownership "
                       "queries: guards (compatibility, no_reclaim), ordering (must-pass-through), never-after-free, who-may-call for page abandonment. "
                       "NOT decided: safety against in-flight remote frees over schedules.")
    for c in (["REL"] if ctx.tier == "quick" else ["REL", "SEC", "DBG"]):
        prog = ctx.prog(c)
        n0 = len(ctx.instances)
        r1(ctx, prog); r2(ctx, prog); r3(ctx, prog); r4(ctx, prog); r5(ctx, prog); r6(ctx, prog); r7(ctx, prog)
        if c != "REL":
            for i in ctx.instances[n0:]:
                i["site"] += " [%s]" % c
                if not i["ok"]:
                    i["key"] += ":" + c
