"""C14 — concurrent arena claims are disjoint and nothing is left reserved (DESIGN §4 C14). Level: other.

Decided: CAS freshness / result use on every bitmap claim (R1, instances of C02.R1/R2 in bitmap.c), roll-back shape of the multi-field claim (R2),
claim/free agreement on count and index (R3), claimed ranges lie inside the arena (R4), mask arithmetic structure (R5).
Not decided: disjointness of concurrently returned ranges over interleavings.
"""
import os
import rl, shared
import C02
from facts import AnalysisBroken

LEVEL = "other"


def r1(ctx, prog):
    R = ctx.rule("C14.R1", "every bitmap claim is a CAS/RMW whose desired value is rebuilt from the refreshed expected value and whose result decides success")
    n = 0
    for f, e in C02.cas_sites(prog):
        if os.path.basename(f.file) != "bitmap.c":
            continue
        n += 1
        ok, how = rl.value_checked(f, e)
        ctx.check(R, ok, f.where(e), "CAS result is %s" % how, key="C14.R1:result:%s" % f.name)
        ev = C02.expected_var(f, e)
        dv = rl.var_of(f, f.nodes[e]["val2"])
        if dv is not None and ev is not None:
            defs = [(a, rhs) for a, rhs, op in f.var_defs(dv) if rhs is not None and f.cfg.reaches(f.cfg.pt(a), f.cfg.pt(e))]
            dep = [a for a, rhs in defs if f.mentions_decl(rhs, ev)]
            if dep:
                fails = [q for q in C02.fail_edges(f, e) if f.cfg.reaches(q, f.cfg.pt(e))]
                w = None
                for q in fails:
                    w = w or f.cfg.must_pass([q], [f.cfg.pt(e)], lambda y: y in dep)
                ctx.check(R, w is None, f.where(e), "newmap is recomputed from the refreshed map on retry", key="C14.R1:fresh:%s" % f.name, witness=w)
        # a claim must not set bits that are already set: bits are or-ed in only after (map & mask) == 0 was observed for the expected value
        if f.name in ("_mi_bitmap_try_find_claim_field", "_mi_bitmap_try_claim", "mi_bitmap_try_find_claim_field_across"):
            rdefs = rl.reaching_defs(f, dv, e) if dv is not None else []
            ors = [rhs for a, rhs, op in rdefs if rhs is not None and any(f.nodes[y]["k"] == "BinaryOperator" and f.nodes[y]["op"] == "|" for y in f.walk(rhs))]
            inline_or = any(f.nodes[y]["k"] == "BinaryOperator" and f.nodes[y]["op"] == "|" for y in f.walk(f.nodes[e]["val2"]))
            if ors or inline_or:
                def free_bits(x, pol):
                    if not isinstance(x, int):
                        return False
                    c = rl.norm_cmp(f, x, pol)
                    if c is None or c[0] != "==" or f.cv(c[2]) != 0:
                        return False
                    for v in rl.values_of(f, c[1]):
                        if f.nodes[v]["k"] == "BinaryOperator" and f.nodes[v]["op"] == "&" and (ev is None or f.mentions_decl(v, ev)):
                            return True
                    return False
                w = f.cfg.guarded(f.cfg.pt(e), free_bits)
                ctx.check(R, w is None, f.where(e), "bits are or-ed in only after (map & mask) == 0 was observed for the expected value", key="C14.R1:clear:%s" % f.name, witness=w)
            elif dv is not None and rdefs and all(f.cv(rhs) is not None for a, rhs, op in rdefs):
                # intermediate field: expected is the constant 0 and desired the constant FULL: the CAS itself tests emptiness
                exp_defs = rl.reaching_defs(f, ev, e) if ev is not None else []
                okc = bool(exp_defs) and all(f.cv(rhs) == 0 for a, rhs, op in exp_defs)
                full = prog.const("MI_BITMAP_FIELD_FULL") if "MI_BITMAP_FIELD_FULL" in prog.consts else (1 << 64) - 1
                okc = okc and all(f.cv(rhs) in (full, -1, (1 << 64) - 1) for a, rhs, op in rdefs)
                ctx.check(R, okc, f.where(e), "a whole field is claimed with expected 0 and desired FULL", key="C14.R1:whole:%s" % f.name)
    for fname in ("_mi_bitmap_claim", "_mi_bitmap_unclaim", "_mi_bitmap_claim_across", "_mi_bitmap_unclaim_across"):
        f = prog.fn(fname)
        rmw = [e for e in f.all(kind="AtomicExpr") if f.nodes[e]["aop"] in ("fetch_or", "fetch_and")]
        ctx.check(R, len(rmw) >= 1, f.where(), "%s updates the bitmap with atomic fetch_or/fetch_and" % fname, key="C14.R1:rmw:%s" % fname)
        plain = [a for a, lhs, rhs, op in f.stores() if f.nodes[f.strip(lhs)]["k"] in ("ArraySubscriptExpr", "UnaryOperator") and "mi_bitmap_field_t" in f.nodes[f.strip(lhs)].get("t", "") + f.nodes[f.strip(lhs)].get("t", "")]
        ctx.check(R, not plain, f.where(), "no plain store to a bitmap field", key="C14.R1:plain:%s" % fname)
    if n < 6:
        ctx.broke("C14.R1: %d CAS sites in bitmap.c, 6 confirmed" % n)
    ctx.floor(R, 20)


def r2(ctx, prog):
    R = ctx.rule("C14.R2", "multi-field claim: every failure after the first successful field CAS goes through the roll-back, which restores the intermediate fields and "
                           "clears initial_mask iff the initial field had been claimed; retries are bounded by a constant")
    f = prog.fn("mi_bitmap_try_find_claim_field_across")
    cfg = f.cfg
    cas = [e for e in f.all(kind="AtomicExpr") if f.nodes[e]["aop"].startswith("cas")]
    # the roll-back region starts where the field cursor is walked *back* (its only decrement) — whether control gets there by
    # `goto rollback` or by falling out of `if (claimed)` blocks does not matter
    cursors = {rl.var_of(f, f.nodes[e]["ptr"]) for e in cas} - {None}
    decs = [a for d_ in cursors for a, kind, opnd in f.var_updates(d_) if kind == "sub" and opnd == 1]
    # (the anchor of this rule: without it the rule cannot tell claim from undo, which is "undecided", not a violation)
    if not (len(cursors) == 1 and len(decs) == 1):
        ctx.broke("C14.R2: mi_bitmap_try_find_claim_field_across no longer has one field cursor that is walked back at exactly one place (the roll-back); the multi-field claim protocol was re-shaped and has to be re-read")
    else:
        ctx.check(R, True, f.where(decs[0]), "anchor: one field cursor, walked back at exactly one place (the roll-back)", key="C14.R2:shape")
    labels = decs[:1] if len(cursors) == 1 and len(decs) == 1 else []
    if labels:
        rb = cfg.pt(labels[0])
        claim_cas = [e for e in cas if not cfg.reaches(rb, cfg.pt(e))]
        undo_cas = [e for e in cas if cfg.reaches(rb, cfg.pt(e))]
        ctx.check(R, len(claim_cas) == 3 and len(undo_cas) == 1, f.where(), "three claiming CAS sites (initial, intermediate, final) and one undoing CAS", key="C14.R2:cas")
        # after the first claim CAS succeeded, every path that returns false passes the walk-back
        first = min(claim_cas, key=lambda e: f.nodes[e]["ln"]) if claim_cas else None
        if first is not None:
            succ = [q for p, q, e, pol in rl.edges_with_fact(f, lambda e, pol: isinstance(e, int) and pol and first in set(f.walk(e)))]
            if not succ:
                # loop exit: `while (!cas)` false edge
                succ = [q for p, outs in cfg.edges.items() for q, lab in outs for e, pol in cfg.facts(lab) if e == first and pol]
            rets_false = [r for r in f.all(kind="ReturnStmt") if f.cv(f.nodes[r].get("val", -1)) == 0 and any(cfg.reaches(q, cfg.pt(r)) for q in succ)]
            w = None
            for r in rets_false:
                w = w or cfg.must_pass(succ, [cfg.pt(r)], lambda e: e == labels[0])
            ctx.check(R, bool(succ) and w is None, f.where(first), "after the initial field was claimed, `return false` is reached only through the roll-back", key="C14.R2:through", witness=w)
        # undo of the initial field is conditional on field == initial_field and clears exactly initial_mask; the two are
        # identified by role: the mask or-ed in by the first claim, and the pointer the field cursor is set to before it
        import C02
        im_d = if_d = fp = None
        if first is not None:
            fp = rl.var_of(f, f.nodes[first]["ptr"])
            ev = C02.expected_var(f, first)
            dv1 = rl.var_of(f, f.nodes[first]["val2"])
            for a_, rhs, op in (rl.reaching_defs(f, dv1, first) if dv1 is not None else []):
                j = f.strip(rhs) if rhs is not None else None
                if j is not None and f.nodes[j]["k"] == "BinaryOperator" and f.nodes[j]["op"] == "|":
                    others = [rl.var_of(f, x) for x in f.nodes[j]["c"] if rl.var_of(f, x) not in (None, ev)]
                    im_d = others[0] if len(others) == 1 else im_d
            for a_, rhs, op in (rl.reaching_defs(f, fp, first) if fp is not None else []):
                if rhs is not None and rl.var_of(f, rhs) is not None:
                    if_d = rl.var_of(f, rhs)
        for e in undo_cas:
            dv = rl.var_of(f, f.nodes[e]["val2"])
            defs = [rhs for a, rhs, op in f.var_defs(dv) if rhs is not None and cfg.reaches(rb, cfg.pt(a))] if dv is not None else []
            ok = im_d is not None and any(any(f.nodes[y]["k"] == "UnaryOperator" and f.nodes[y]["op"] == "~" and rl.var_of(f, f.nodes[y]["c"][0]) == im_d for y in f.walk(r)) for r in defs)
            ctx.check(R, ok, f.where(e), "the undo clears ~initial_mask from the refreshed map", key="C14.R2:undo:mask")
            def is_initial(x, pol):
                return isinstance(x, int) and if_d is not None and rl.rel(f, x, pol, rl.is_local(f, fp), rl.is_local(f, if_d)) == "=="
            w = cfg.guarded(cfg.pt(e), is_initial)
            ctx.check(R, w is None, f.where(e), "the initial field is undone only if it had been claimed (field == initial_field after walking back)", key="C14.R2:undo:cond", witness=w)
        # intermediate fields restored with a release store of 0 in a loop walking back
        st = [e for e in f.all(kind="AtomicExpr") if f.nodes[e]["aop"] == "store" and cfg.reaches(rb, cfg.pt(e))]
        ok = len(st) == 1 and f.cfg.in_loop(st[0]) and f.nodes[st[0]].get("ord") in (3, 4, 5)
        ctx.check(R, ok, f.where(), "intermediate fields are restored (release store) in the walk-back loop", key="C14.R2:intermediate")
    # bounded retry
    rec = [c for c in f.calls(f.name)]
    ok = len(rec) == 1
    if ok:
        rt = f.param_id(4)
        def bounded(x, pol):
            if not isinstance(x, int):
                return False
            return rl.establishes(f, x, pol, "<=", rl.is_local(f, rt), rl.is_const(f, lambda v: v <= 8))
        ok = cfg.guarded(cfg.pt(rec[0]), bounded) is None and rl.canon(f, rl.arg(f, rec[0], 4)).replace(" ", "") in ("($4+1)", "(1+$4)")
    ctx.check(R, ok, f.where(), "the retry is a recursive call with retries+1, guarded by a constant bound", key="C14.R2:retry")
    ctx.floor(R, 7)


def r3(ctx, prog):
    R = ctx.rule("C14.R3", "claim/free agreement: allocation and free derive the block count with mi_block_count_of_size and the index from the memid; free checks that all bits were in use")
    f = prog.fn("mi_arena_try_alloc_at_id")
    bc = [dd["d"] for _, dd in rl.var_init_from(f, lambda j: rl.is_call(f, j, "mi_block_count_of_size"))]
    ok = bool(bc) and all(rl.var_of(f, rl.arg(f, c, 2)) == bc[0] for c in f.calls("mi_arena_try_alloc_at"))
    ctx.check(R, ok, f.where(), "allocation claims mi_block_count_of_size(size) blocks", key="C14.R3:alloc")
    g = prog.fn("_mi_arena_free")
    bc = [dd["d"] for _, dd in rl.var_init_from(g, lambda j: rl.is_call(g, j, "mi_block_count_of_size"))]
    idxs = set()
    for c in g.calls("mi_arena_memid_indices"):
        for a in g.nodes[c]["args"][1:]:
            j = g.strip(a)
            if g.nodes[j]["k"] == "UnaryOperator":
                idxs.add(rl.var_of(g, g.nodes[j]["c"][0]))
    rel = [c for c in g.calls("_mi_bitmap_unclaim_across") if g.mentions_field(rl.arg(g, c, 0), "blocks_inuse")]
    ok = bool(bc) and len(rel) == 1 and rl.var_of(g, rl.arg(g, rel[0], 2)) == bc[0] and rl.var_of(g, rl.arg(g, rel[0], 3)) in idxs and g.is_ref(g.nodes[g.strip(g.nodes[list(g.calls("mi_block_count_of_size"))[0]]["args"][0])]["i"], g.param_id(1))
    ctx.check(R, ok, g.where(), "free releases mi_block_count_of_size(size) blocks at the memid's index", key="C14.R3:free")
    if rel:
        okr, how = rl.value_checked(g, rel[0])
        ctx.check(R, okr, g.where(rel[0]), "the result of the release (all bits were in use?) is checked (%s)" % how, key="C14.R3:check")
        eagain = prog.const("EAGAIN")
        hit = rl.value_edges(g, rel[0], False)
        okm = bool(hit) and all(g.cfg.must_pass([q], g.cfg.exit_points(), lambda e: rl.is_call(g, e, "_mi_error_message") and g.cv(g.nodes[e]["args"][0]) == eagain) is None for q in hit)
        ctx.check(R, okm, g.where(), "freeing blocks that were not all in use reports EAGAIN (double free of arena memory)", key="C14.R3:eagain")
    h = prog.fn("mi_arena_try_alloc_at")
    ok = any(rl.is_call(h, h.strip(rhs), "mi_memid_create_arena") and rl.var_of(h, h.nodes[h.strip(rhs)]["args"][2]) is not None for a, lhs, rhs, op in h.stores() if rhs is not None)
    ctx.check(R, ok, h.where(), "the memid records the claimed bitmap index", key="C14.R3:memid")
    m = prog.fn("mi_block_count_of_size")
    ok = all(rl.is_call(m, m.strip(m.nodes[r]["val"]), "_mi_divide_up") and m.cv(m.nodes[m.strip(m.nodes[r]["val"])]["args"][1]) == prog.const("MI_ARENA_BLOCK_SIZE") for r in m.all(kind="ReturnStmt"))
    ctx.check(R, ok, m.where(), "block count = divide_up(size, MI_ARENA_BLOCK_SIZE)", key="C14.R3:count")
    ctx.floor(R, 6)


def r4(ctx, prog):
    R = ctx.rule("C14.R4", "claimed ranges lie inside the arena: block start = arena start + index*MI_ARENA_BLOCK_SIZE; the bits beyond block_count are claimed at registration")
    f = prog.fn("mi_arena_block_start")
    blk = prog.const("MI_ARENA_BLOCK_SIZE")
    rets = [r for r in f.all(kind="ReturnStmt")]
    ok = len(rets) == 1 and f.mentions_field(rets[0], "start") and (any(f.cv(x) == blk for x in f.walk(rets[0])) or f.mentions_call(rets[0], "mi_arena_block_size")) and f.mentions_call(rets[0], "mi_bitmap_index_bit")
    ctx.check(R, ok, f.where(), "start + mi_arena_block_size(mi_bitmap_index_bit(index))", key="C14.R4:start")
    g = prog.fn("mi_arena_block_size")
    ok = all(rl.canon(g, g.nodes[r]["val"]).replace(" ", "") in ("($0*%d)" % blk, "(%d*$0)" % blk) for r in g.all(kind="ReturnStmt"))
    ctx.check(R, ok, g.where(), "mi_arena_block_size(n) = n * MI_ARENA_BLOCK_SIZE", key="C14.R4:size")
    h = prog.fn("mi_manage_os_memory_ex2")
    claims = [c for c in h.calls("_mi_bitmap_claim") if h.mentions_field(rl.arg(h, c, 0), "blocks_inuse")]
    ok = len(claims) == 1
    if ok:
        def post_pos(x, pol):
            if not isinstance(x, int):
                return False
            c = rl.norm_cmp(h, x, pol)
            return c is not None and c[0] == ">" and h.cv(c[2]) == 0
        ok = h.cfg.guarded(h.cfg.pt(claims[0]), post_pos) is None
    ctx.check(R, ok, h.where(), "left-over bits of the last field are claimed in blocks_inuse whenever there are any", key="C14.R4:leftover")
    st = [(a, rhs) for a, l, rhs, op in h.field_stores("block_count")]
    bc = [dd["d"] for _, dd in rl.local_decl(h, lambda dd: dd["n"] == "bcount" or ("init" in dd and h.nodes[h.strip(dd["init"])]["k"] == "BinaryOperator" and h.nodes[h.strip(dd["init"])]["op"] == "/" and h.cv(h.nodes[h.strip(dd["init"])]["c"][1]) == blk))]
    ctx.check(R, len(st) == 1 and rl.var_of(h, st[0][1]) in bc, h.where(), "arena->block_count = size / MI_ARENA_BLOCK_SIZE", key="C14.R4:block_count")
    ctx.floor(R, 4)


def r5(ctx, prog):
    R = ctx.rule("C14.R5", "mask arithmetic: mi_bitmap_mask_(count,bitidx) = ((1<<count)-1)<<bitidx with the full-field case split off; the across-masks split count into "
                           "pre (BITS-bitidx), mid (count/BITS full fields) and post (count%BITS) parts")
    f = prog.fn("mi_bitmap_mask_")
    bits = prog.const("MI_BITMAP_FIELD_BITS")
    rets = [r for r in f.all(kind="ReturnStmt")]
    general = [r for r in rets if f.cv(f.nodes[r]["val"]) is None]
    ok = len(general) == 1 and rl.canon(f, f.nodes[general[0]]["val"]).replace(" ", "") == "(((1<<$0)-1)<<$1)"
    ctx.check(R, ok, f.where(), "general case ((1 << count) - 1) << bitidx: %s" % (rl.canon(f, f.nodes[general[0]]["val"]) if general else "?"), key="C14.R5:mask")
    def full(x, pol):
        if not isinstance(x, int):
            return False
        return rl.establishes(f, x, pol, "<", rl.is_local(f, f.param_id(0)), rl.is_const(f, lambda v: v <= bits))
    ok = bool(general) and f.cfg.guarded(f.cfg.pt(general[0]), full) is None
    ctx.check(R, ok, f.where(), "the shift is only evaluated for count < %d (a shift by the full width is undefined)" % bits, key="C14.R5:shift")
    g = prog.fn("mi_bitmap_mask_across")
    pre = [dd for _, dd in rl.local_decl(g, lambda dd: "init" in dd and rl.canon(g, dd["init"]).replace(" ", "").startswith("(%d-" % bits))]
    ctx.check(R, len(pre) == 1, g.where(), "pre_bits = MI_BITMAP_FIELD_BITS - bitidx", key="C14.R5:pre")
    cnt = g.param_id(2)
    pre_txt = rl.canon(g, pre[0]["init"]).replace(" ", "") if pre else "?"
    defs = [(kind if kind != "rmw" else g.nodes[a]["op"], rl.canon(g, opnd).replace(" ", "") if isinstance(opnd, int) and opnd != 1 else str(opnd)) for a, kind, opnd in g.var_updates(cnt)]
    ok = ("sub", pre_txt) in defs and ("%=", str(bits)) in defs
    ctx.check(R, ok, g.where(), "count -= pre_bits; mid = count / BITS; count %%= BITS (%s)" % defs, key="C14.R5:split")
    mid = [dd for _, dd in rl.local_decl(g, lambda dd: "init" in dd and rl.canon(g, dd["init"]).replace(" ", "") == "($2/%d)" % bits)]
    rets = [r for r in g.all(kind="ReturnStmt") if g.cv(g.nodes[r].get("val", -1)) is None]
    ctx.check(R, len(mid) == 1 and all(rl.var_of(g, g.nodes[r]["val"]) == mid[0]["d"] for r in rets), g.where(), "the number of full middle fields is returned", key="C14.R5:mid")
    def fits(x, pol):
        if not isinstance(x, int):
            return False
        c = rl.norm_cmp(g, x, pol)
        return c is not None and c[0] == "<=" and g.cv(c[2]) == bits and g.mentions_decl(c[1], cnt)
    single = [c for c in g.calls("mi_bitmap_mask_") if rl.var_of(g, rl.arg(g, c, 0)) == cnt and g.cv(rl.arg(g, c, 1)) is None]
    ok = bool(single) and all(g.cfg.guarded(g.cfg.pt(c), fits) is None for c in single)
    ctx.check(R, ok, g.where(), "the single-field mask is used only when bitidx + count <= BITS", key="C14.R5:single")
    ctx.floor(R, 6)


def r6(ctx, prog):
    R = ctx.rule("C14.R6", "the free path's sanity checks reject no valid range: a range that ends in the arena's last block passes every `field_count <= mi_bitmap_index_field(..)` "
                           "test (a rejected free returns early and leaves the blocks claimed for ever); witnesses: last bit of field k, 1..3 blocks, evaluated with the analyser's evaluator")
    from absint import Interp, AV, Split, Unsupported, AssertionMayFail
    g = prog.fn("_mi_arena_free")
    bc = [dd["d"] for _, dd in rl.var_init_from(g, lambda j: rl.is_call(g, j, "mi_block_count_of_size"))]
    idx = None
    for c in g.calls("mi_arena_memid_indices"):
        a = g.strip(g.nodes[c]["args"][-1])
        if g.nodes[a]["k"] == "UnaryOperator" and g.nodes[a]["op"] == "&":
            idx = rl.var_of(g, g.nodes[a]["c"][0])
    if not bc or idx is None:
        ctx.broke("C14.R6: block count / bitmap index locals of _mi_arena_free not found")
        return
    bits = prog.const("MI_BITMAP_FIELD_BITS")
    it = Interp(prog)
    it.lazy_locals = True
    n = 0
    seen = set()
    for p_, q, e, pol in rl.edges_with_fact(g, lambda e, pol: isinstance(e, int) and rl.oriented(g, e, pol, rl.is_field(g, "field_count"), lambda j: "mi_bitmap_index_field(" in rl.canon(g, j)) is not None):
        c = rl.oriented(g, e, pol, rl.is_field(g, "field_count"), lambda j: "mi_bitmap_index_field(" in rl.canon(g, j))
        if c[0] not in ("<=", "<") or not rl.can_reach_call(g, q, lambda m: m.get("callee") == "_mi_error_message") or (e, pol) in seen:
            continue
        seen.add((e, pol))
        n += 1
        bad = None
        for k in (0, 1, 5):
            for nb in (1, 2, 3):
                # the range [64k + 64 - nb, 64k + 64) lies entirely in field k: an arena with k+1 fields must accept it
                try:
                    v = it.eval(g, c[2], {idx: AV(bits * k + bits - nb), bc[0]: AV(nb)}, 0).const()
                except (Split, Unsupported, AssertionMayFail):
                    v = None
                if v is None:
                    continue
                rejected = (k + 1 <= v) if c[0] == "<=" else (k + 1 < v)
                if rejected:
                    bad = (k, nb, v)
                    break
            if bad:
                break
        ctx.check(R, bad is None, g.where(e), "`%s` accepts a range that ends with the arena's last block" % g.text(e)[:90] if bad is None else
                  "`%s` rejects a valid free: %d block(s) ending at the last bit of field %d give field index %d, so an arena with %d field(s) refuses to release them"
                  % (g.text(e)[:90], bad[1], bad[0], bad[2], bad[0] + 1), key="C14.R6:accept", witness=list(bad) if bad else None)
    if n == 0:
        ctx.broke("C14.R6: no field_count sanity check found in _mi_arena_free")
    ctx.floor(R, 1)


def run(ctx):
    ctx.explanation = ("Static decision of C14's code-shaped necessary conditions: refresh and observed-clear conditions of every claiming CAS in bitmap.c, the roll-back region of the "
                       "multi-field claim (all failure edges go through it; conditional undo of the initial field; bounded retry), agreement of count/index between claim and "
                       "release with a checked result, containment arithmetic, and the structure of the mask helpers. NOT decided: disjointness over interleavings.")
    for c in (["REL"] if ctx.tier == "quick" else ["REL", "SEC", "DBG"]):
        prog = ctx.prog(c)
        n0 = len(ctx.instances)
        r1(ctx, prog); r2(ctx, prog); r3(ctx, prog); r4(ctx, prog); r5(ctx, prog); r6(ctx, prog)
        if c != "REL":
            for i in ctx.instances[n0:]:
                i["site"] += " [%s]" % c
                if not i["ok"]:
                    i["key"] += ":" + c
