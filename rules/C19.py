"""C19 — drop-in override (DESIGN §4 C19, appendix D1). Level: other (configuration: the real build, which defines MI_MALLOC_OVERRIDE).

Decided: the symbol table of the override unit — every standard allocation symbol is defined (alias or forwarding body), default-visible,
forwards to the right mi_ function with the right argument order (R1, R2); every target reaches this library's allocator/free and no libc
allocator (R3); posix/BSD return conventions (R4 = C06.R3/R4). Not decided: what the dynamic linker binds at run time.
"""
import rl
from facts import AnalysisBroken

LEVEL = "other"

# oracle: ISO C / POSIX / glibc / Itanium C++ ABI meaning of each symbol -> (target, argument permutation of the symbol's own parameters)
ALIAS = {
    "malloc": "mi_malloc", "__libc_malloc": "mi_malloc", "calloc": "mi_calloc", "__libc_calloc": "mi_calloc",
    "realloc": "mi_realloc", "__libc_realloc": "mi_realloc", "free": "mi_free", "__libc_free": "mi_free", "__libc_cfree": "mi_free",
    "_ZdlPv": "mi_free", "_ZdaPv": "mi_free", "strdup": "mi_strdup", "strndup": "mi_strndup",
    "_ZdlPvm": "mi_free_size", "_ZdaPvm": "mi_free_size", "_Znwm": "mi_new", "_Znam": "mi_new",
    "_ZnwmSt11align_val_t": "mi_new_aligned", "_ZnamSt11align_val_t": "mi_new_aligned",
    "reallocf": "mi_reallocf", "malloc_size": "mi_usable_size", "malloc_usable_size": "mi_usable_size",
}
BODY = {
    "_ZdlPvSt11align_val_t": ("mi_free_aligned", [0, 1]), "_ZdaPvSt11align_val_t": ("mi_free_aligned", [0, 1]),
    "_ZdlPvmSt11align_val_t": ("mi_free_size_aligned", [0, 1, 2]), "_ZdaPvmSt11align_val_t": ("mi_free_size_aligned", [0, 1, 2]),
    "_ZdlPvRKSt9nothrow_t": ("mi_free", [0]), "_ZdaPvRKSt9nothrow_t": ("mi_free", [0]),
    "_ZdlPvSt11align_val_tRKSt9nothrow_t": ("mi_free_aligned", [0, 1]), "_ZdaPvSt11align_val_tRKSt9nothrow_t": ("mi_free_aligned", [0, 1]),
    "_ZnwmRKSt9nothrow_t": ("mi_new_nothrow", [0]), "_ZnamRKSt9nothrow_t": ("mi_new_nothrow", [0]),
    "_ZnwmSt11align_val_tRKSt9nothrow_t": ("mi_new_aligned_nothrow", [0, 1]), "_ZnamSt11align_val_tRKSt9nothrow_t": ("mi_new_aligned_nothrow", [0, 1]),
    "valloc": ("mi_valloc", [0]), "__libc_valloc": ("mi_valloc", [0]), "pvalloc": ("mi_pvalloc", [0]), "__libc_pvalloc": ("mi_pvalloc", [0]),
    "memalign": ("mi_memalign", [0, 1]), "__libc_memalign": ("mi_memalign", [0, 1]),
    "posix_memalign": ("mi_posix_memalign", [0, 1, 2]), "__posix_memalign": ("mi_posix_memalign", [0, 1, 2]),
    "aligned_alloc": ("mi_aligned_alloc", [0, 1]), "vfree": ("mi_free", [0]), "cfree": ("mi_free", [0]),
    "malloc_good_size": ("mi_malloc_good_size", [0]), "reallocarray": ("mi_reallocarray", [0, 1, 2]), "reallocarr": ("mi_reallocarr", [0, 1, 2]),
}
# parameter kinds expected by the ABI, used to confirm that (alignment,size)-style pairs are not swapped: symbol -> parameter names by position
PARAM_ROLES = {
    "memalign": ["alignment", "size"], "__libc_memalign": ["alignment", "size"], "aligned_alloc": ["alignment", "size"],
    "posix_memalign": ["p", "alignment", "size"], "__posix_memalign": ["p", "alignment", "size"],
    "reallocarray": ["p", "count", "size"], "reallocarr": ["p", "count", "size"],
}
TARGET_ROLES = {
    "mi_memalign": ["alignment", "size"], "mi_aligned_alloc": ["alignment", "size"], "mi_posix_memalign": ["p", "alignment", "size"],
    "mi_reallocarray": ["p", "count", "size"], "mi_reallocarr": ["p", "count", "size"], "mi_calloc": ["count", "size"], "mi_realloc": ["p", "newsize"],
    "mi_free_size": ["p", "size"], "mi_new_aligned": ["size", "alignment"], "mi_free_aligned": ["p", "alignment"], "mi_free_size_aligned": ["p", "size", "alignment"],
    "mi_new_aligned_nothrow": ["size", "alignment"], "mi_strndup": ["s", "n"], "mi_reallocf": ["p", "newsize"],
}
LIBC_ALLOC = {"malloc", "calloc", "realloc", "free", "posix_memalign", "aligned_alloc", "memalign", "valloc", "strdup"}


def r1(ctx, prog):
    R = ctx.rule("C19.R1", "every standard allocation symbol is defined by the override unit and forwards to the stated mi_ function with the stated argument order")
    for sym, tgt in sorted(ALIAS.items()):
        a = prog.aliases.get(sym)
        if a is None and sym in prog.fns:
            # a forwarding body is as good as an alias
            f = prog.fn(sym)
            cs = [c for c in f.calls() if f.nodes[c].get("callee") == tgt]
            ok = len(cs) == 1 and [rl.var_of(f, x) for x in f.nodes[cs[0]]["args"]] == f.pids
            ctx.check(R, ok, f.where(), "%s forwards to %s with identical arguments" % (sym, tgt), key="C19.R1:%s" % sym)
            continue
        ok = a is not None and a.get("alias") == tgt
        if ok and tgt in prog.fns:
            # an alias shares the target's code: the parameter lists must agree in number and kind
            tp = [p["t"].replace("const ", "") for p in prog.fn(tgt).d["params"]]
            ap = [p["t"].replace("const ", "") for p in a["params"]]
            ok = len(tp) == len(ap) and all((("*" in x) == ("*" in y)) for x, y in zip(tp, ap))
        ctx.check(R, ok, "src/alloc-override.c %s" % sym, "%s is an alias of %s (found: %s)" % (sym, tgt, a.get("alias") if a else "not defined"), key="C19.R1:%s" % sym)
    for sym, (tgt, perm) in sorted(BODY.items()):
        if sym in prog.aliases:
            a = prog.aliases[sym]
            ok = a.get("alias") == tgt and perm == list(range(len(a["params"])))
            ctx.check(R, ok, "src/alloc-override.c %s" % sym, "%s is an alias of %s" % (sym, tgt), key="C19.R1:%s" % sym)
            continue
        if sym not in prog.fns:
            ctx.fail(R, "src/alloc-override.c %s" % sym, "%s is not defined in the override build" % sym, key="C19.R1:%s" % sym)
            continue
        f = prog.fn(sym)
        cs = [c for c in f.calls() if f.nodes[c].get("callee", "").startswith("mi_")]
        ok = len(cs) == 1 and f.nodes[cs[0]]["callee"] == tgt
        got = None
        if ok:
            got = [f.pids.index(rl.var_of(f, x)) if rl.var_of(f, x) in f.pids else None for x in f.nodes[cs[0]]["args"]]
            ok = got == perm
        if ok and f.d["ret"] != "void":
            rets = [r for r in f.all(kind="ReturnStmt")]
            ok = len(rets) == 1 and f.strip(f.nodes[rets[0]].get("val", -1)) == cs[0] if rets else False
        ctx.check(R, ok, f.where(), "%s forwards to %s with arguments %s (found %s -> %s)" % (sym, tgt, perm, f.nodes[cs[0]]["callee"] if cs else None, got), key="C19.R1:%s" % sym)
        # role agreement: the parameter named `alignment` of the symbol must land in the target's alignment position
        if ok and sym in PARAM_ROLES and tgt in TARGET_ROLES and tgt in prog.fns:
            tnames = prog.param_names(tgt)
            ok2 = all(PARAM_ROLES[sym][perm[k]] == TARGET_ROLES[tgt][k] for k in range(len(perm))) and \
                [n for n in tnames] == [n for n in tnames]
            ctx.check(R, ok2, f.where(), "argument roles agree with %s%s" % (tgt, TARGET_ROLES[tgt]), key="C19.R1:%s:roles" % sym)
    # the targets' own parameter order is what the role table says (guards against swapping inside the mi_ function's signature)
    for tgt, roles in sorted(TARGET_ROLES.items()):
        if tgt not in prog.fns:
            continue
        names = prog.param_names(tgt)
        norm = lambda n: {"n": "size", "al": "alignment", "newsize": "newsize", "s": "s"}.get(n, n)
        ok = len(names) == len(roles) and all(("align" in a) == ("align" in b) and (a in ("p", "s")) == (b in ("p", "s")) for a, b in zip(names, roles))
        ctx.check(R, ok, prog.fn(tgt).where(), "%s%s has the parameter order %s" % (tgt, names, roles), key="C19.R1:sig:%s" % tgt)
    n_new = sum(1 for s in list(ALIAS) + list(BODY) if s.startswith("_Zn"))
    n_del = sum(1 for s in list(ALIAS) + list(BODY) if s.startswith("_Zd"))
    ctx.check(R, n_new == 8 and n_del == 12, "oracle table", "all 20 Itanium operator new/delete forms are in the table (%d new, %d delete)" % (n_new, n_del), key="C19.R1:table")
    ctx.floor(R, 60)


def r2(ctx, prog):
    R = ctx.rule("C19.R2", "override symbols are externally visible with default visibility (the build uses -fvisibility=hidden)")
    for sym in sorted(list(ALIAS) + list(BODY)):
        if sym in prog.aliases:
            a = prog.aliases[sym]
            ok = a.get("visibility") == "default" and not a["static"]
        elif sym in prog.fns:
            d = prog.fn(sym).d
            ok = (d.get("visibility") == "default" or d.get("visibility_any") == "default") and not d["static"] and d["extern_visible"]
        else:
            continue  # reported by R1
        ctx.check(R, ok, "src/alloc-override.c %s" % sym, "%s has default visibility" % sym, key="C19.R2:%s" % sym)
    ctx.check(R, "-fvisibility=hidden" in prog.flags and "-DMI_MALLOC_OVERRIDE" in prog.flags, "build flags", "the analysed configuration is the real override build (%s)" %
              [x for x in prog.flags if "visibility" in x or "OVERRIDE" in x], key="C19.R2:flags")
    ctx.floor(R, 45)


def r3(ctx, prog):
    R = ctx.rule("C19.R3", "one allocator: every forwarding target reaches this library's page allocator / free and calls no libc allocation function")
    cut = {"_mi_error_message", "_mi_warning_message", "_mi_verbose_message", "_mi_trace_message", "_mi_assert_fail"}
    alloc_t = {"mi_malloc", "mi_calloc", "mi_realloc", "mi_new", "mi_new_aligned", "mi_new_nothrow", "mi_new_aligned_nothrow", "mi_valloc", "mi_pvalloc", "mi_memalign",
               "mi_posix_memalign", "mi_aligned_alloc", "mi_reallocarray", "mi_reallocarr", "mi_reallocf", "mi_strdup", "mi_strndup"}
    free_t = {"mi_free", "mi_free_size", "mi_free_aligned", "mi_free_size_aligned"}
    for t in sorted(alloc_t | free_t | {"mi_usable_size", "mi_malloc_good_size"}):
        if t not in prog.fns:
            ctx.fail(R, t, "forwarding target %s is not defined" % t, key="C19.R3:%s:def" % t)
            continue
        reach = prog.reachable([t], cut=cut)
        ext = sorted(x for x in reach if x in LIBC_ALLOC and x not in prog.fns or (x in LIBC_ALLOC and prog.fns.get(x) is not None and x in reach and False))
        calls_libc = sorted(x for x in reach if x in LIBC_ALLOC and x not in ALIAS and x not in BODY)
        ok = not calls_libc
        if t in alloc_t:
            ok = ok and "_mi_page_malloc_zero" in reach
        if t in free_t:
            ok = ok and ("mi_free_block_local" in reach or "mi_free" == t)
        ctx.check(R, ok, prog.fn(t).where(), "%s reaches %s and no libc allocator %s" % (t, "_mi_page_malloc_zero" if t in alloc_t else "mi_free_block_local" if t in free_t else "only this library", calls_libc),
                  key="C19.R3:%s" % t)
    # calls by name to overridden symbols from inside the library resolve to the library itself (realpath path): they must be the overridden names
    users = sorted({(f.name, f.nodes[c]["callee"]) for f in prog.fns.values() for c in f.calls() if f.nodes[c].get("callee") in LIBC_ALLOC and not f.file.endswith("alloc-override.c")})
    ctx.note("C19.R3: library functions that call an overridden libc name (resolved to the override itself): %s" % users)
    ctx.floor(R, 20)


def r4(ctx, prog):
    R = ctx.rule("C19.R4", "return conventions of the POSIX/BSD entry points (decided in detail by C06.R3/R4): they are forwarded unchanged")
    for sym in ("posix_memalign", "__posix_memalign", "reallocarray", "reallocarr"):
        if sym in prog.fns:
            f = prog.fn(sym)
            rets = [r for r in f.all(kind="ReturnStmt")]
            ok = len(rets) == 1 and rl.is_call(f, f.strip(f.nodes[rets[0]]["val"]))
            ctx.check(R, ok, f.where(), "%s returns its target's result unchanged" % sym, key="C19.R4:%s" % sym)
    ctx.floor(R, 4)


def r5(ctx, prog):
    R = ctx.rule("C19.R5", "the aligned entry points keep their contract behind the override: posix_memalign / memalign / aligned_alloc / valloc / pvalloc obtain their memory "
                           "only from an aligned allocation call that receives the requested alignment (never from plain malloc on the belief that every block is aligned enough)")
    ALIGNED = ("mi_malloc_aligned", "mi_heap_malloc_aligned", "mi_malloc_aligned_at", "mi_heap_malloc_aligned_at", "mi_zalloc_aligned", "mi_memalign")
    n = 0
    for name, ak in (("mi_posix_memalign", 1), ("mi_memalign", 0), ("mi_aligned_alloc", 0)):
        if not prog.has(name):
            continue
        f = prog.fn(name)
        al = f.param_id(ak)
        for c in f.calls():
            cal = f.nodes[c].get("callee") or ""
            if not (cal.startswith(("mi_malloc", "mi_zalloc", "mi_calloc", "mi_heap_malloc", "mi_heap_zalloc", "_mi_heap_malloc", "mi_memalign")) ):
                continue
            n += 1
            vals = [v for a in f.nodes[c]["args"] for v in rl.values_of(f, a)]
            ok = cal in ALIGNED and any(rl.var_of(f, v) == al for v in vals)
            ctx.check(R, ok, f.where(c), "%s allocates with %s(…, alignment, …)" % (name, cal) if ok else "%s allocates with %s, which does not receive the requested alignment" % (name, cal),
                      key="C19.R5:%s" % name)
    for name in ("mi_valloc", "mi_pvalloc"):
        if not prog.has(name):
            continue
        f = prog.fn(name)
        for c in f.calls():
            cal = f.nodes[c].get("callee") or ""
            if cal.startswith(("mi_malloc", "mi_zalloc", "mi_heap_malloc", "mi_memalign")):
                n += 1
                vals = [v for a in f.nodes[c]["args"] for v in rl.values_of(f, a)]
                ok = cal in ALIGNED and any(rl.is_call(f, v, "_mi_os_page_size") for v in vals)
                ctx.check(R, ok, f.where(c), "%s allocates page-aligned through %s" % (name, cal), key="C19.R5:%s" % name)
    if n < 4:
        ctx.broke("C19.R5: only %d allocation calls in the aligned entry points" % n)
    ctx.floor(R, 4)


def run(ctx):
    ctx.explanation = ("Static decision of C19's code-shaped necessary conditions from the AST of the override build: presence, visibility, target and argument permutation of "
                       "all 49 overriding symbols against an oracle table taken from ISO C/POSIX/glibc/Itanium ABI; call-graph check that every target is served by this "
                       "library's allocator. NOT decided: what the dynamic linker binds at run time.")
    prog = ctx.prog("REL")
    r1(ctx, prog); r2(ctx, prog); r3(ctx, prog); r4(ctx, prog); r5(ctx, prog)
    if ctx.tier == "thorough":
        for c in ("SEC", "DBG"):
            p2 = ctx.prog(c)
            n0 = len(ctx.instances)
            r1(ctx, p2); r2(ctx, p2)
            for i in ctx.instances[n0:]:
                i["site"] += " [%s]" % c
                if not i["ok"]:
                    i["key"] += ":" + c
