"""C05 — realloc preserves contents, releases the old block exactly once (DESIGN §4 C05). Level: other.

Decided: copy length = min(old usable, new size) (R1), free discipline of the old block (R2), in-place guard and
alignment on every return path of the aligned variant (R3), mi_expand has no allocate/free effect (R4), overflow
wrappers touch nothing (R5, shared with C06.R1). Not decided: byte equality of the copied prefix.
"""
import rl
from facts import AnalysisBroken
from C04 import upper_bounded_by, bool_params

LEVEL = "other"
BODIES = ("_mi_heap_realloc_zero", "mi_heap_realloc_zero_aligned_at")
MEMCPY = ("_mi_memcpy", "_mi_memcpy_aligned", "memcpy")


def anchors(f):
    """(p, newsize, old-size variable, new-block variable). The old size is the variable the in-place guard compares newsize with;
    whether it is really the usable size of p is judged by C05.R3 (a violation there, not an analysis failure)."""
    p_d = next((f.param_id(k) for k, p in enumerate(f.d["params"]) if p["t"] == "void *"), None)
    ns_d = next((f.param_id(k) for k, p in enumerate(f.d["params"]) if p["n"] == "newsize" or (p["t"] == "size_t" and k == 2)), None)
    olds = [dd["d"] for _, dd in rl.var_init_from(f, lambda j: rl.is_call(f, j, ("_mi_usable_size", "mi_usable_size")) and f.is_ref(f.nodes[j]["args"][0], p_d))]
    if not olds:
        # fall back to the variable compared with newsize
        for x in f.all(kind="BinaryOperator"):
            c = rl.cmp_parts(f, x)
            if c and c[0] in ("<=", "<", ">", ">=") and ns_d in (rl.var_of(f, c[1]), rl.var_of(f, c[2])):
                o = rl.var_of(f, c[2]) if rl.var_of(f, c[1]) == ns_d else rl.var_of(f, c[1])
                if o is not None and o not in f.pids:
                    olds.append(o)
    news = [dd["d"] for _, dd in rl.var_init_from(f, lambda j: rl.is_call(f, j) and (f.nodes[j].get("callee") or "").startswith("mi_heap_malloc"))]
    if p_d is None or ns_d is None or not olds or not news:
        raise AnalysisBroken("C05: anchors (p, newsize, old usable size, new block) not found in %s" % f.name)
    return p_d, ns_d, olds[0], news[0]


def r1(ctx, prog):
    R = ctx.rule("C05.R1", "the copy into the new block has length min(usable(old), newsize), from p to newp")
    for fname in BODIES:
        f = prog.fn(fname)
        p_d, ns_d, old_d, new_d = anchors(f)
        cs = [c for c in f.calls(MEMCPY)]
        ctx.check(R, len(cs) >= 1, f.where(), "the moving path copies the old contents", key="C05.R1:%s:present" % fname)
        for c in cs:
            dst, src, ln = rl.arg(f, c, 0), rl.arg(f, c, 1), rl.arg(f, c, 2)
            ok = rl.var_of(f, dst) == new_d and rl.var_of(f, src) == p_d
            ctx.check(R, ok, f.where(c), "copy goes from the old block to the new block (%s <- %s)" % (f.text(dst), f.text(src)), key="C05.R1:%s:ends" % fname)
            ok = upper_bounded_by(f, ln, old_d) and upper_bounded_by(f, ln, ns_d) and f.cv(ln) is None
            ctx.check(R, ok, f.where(c), "copy length %s is bounded by both the old usable size and the new size" % f.text(ln), key="C05.R1:%s:len" % fname)
            # not less than the minimum either: it must be exactly the min idiom (no `- k`)
            exact = _is_min(f, ln, old_d, ns_d)
            ctx.check(R, exact, f.where(c), "copy length is exactly min(old usable, newsize)", key="C05.R1:%s:exact" % fname)
    ctx.floor(R, 8)


def _is_min(f, e, a_d, b_d, depth=3):
    j = f.strip(e)
    n = f.nodes[j]
    if n["k"] == "DeclRefExpr" and n["dk"] == "local" and depth > 0:
        defs = [(a, rhs) for a, rhs, op in f.var_defs(n["d"]) if op != "addr" and not (op == "decl" and rhs is None)]
        if len(defs) == 1:
            return defs[0][1] is not None and _is_min(f, defs[0][1], a_d, b_d, depth - 1)
        # the same minimum written as an if/else: one assignment of each operand, each on an edge where it is the smaller one
        vals = {}
        for a, rhs in defs:
            v = rl.var_of(f, rhs) if rhs is not None else None
            if v not in (a_d, b_d) or v in vals:
                return False
            o = b_d if v == a_d else a_d
            if f.cfg.guarded(f.cfg.pt(a), lambda e, pol: isinstance(e, int) and rl.establishes(f, e, pol, "<=", rl.is_local(f, v), rl.is_local(f, o))) is not None:
                return False
            vals[v] = a
        return set(vals) == {a_d, b_d}
    if n["k"] != "ConditionalOperator":
        return False
    c = rl.cmp_parts(f, n["cond"])
    if c is None:
        return False
    op, x, y = c
    dx, dy = rl.var_of(f, x), rl.var_of(f, y)
    if {dx, dy} != {a_d, b_d}:
        return False
    t, el = rl.var_of(f, n["then"]), rl.var_of(f, n["else"])
    if op in (">", ">="):
        return t == dy and el == dx
    if op in ("<", "<="):
        return t == dx and el == dy
    return False


def r2(ctx, prog):
    R = ctx.rule("C05.R2", "the old block is freed only after the new block exists, exactly once, and never on a path that returns p or NULL; "
                           "reallocf frees exactly when the reallocation failed")
    for fname in BODIES:
        f = prog.fn(fname)
        cfg = f.cfg
        p_d, ns_d, old_d, new_d = anchors(f)
        frees = [c for c in f.calls("mi_free") if rl.var_of(f, rl.arg(f, c, 0)) == p_d]
        ctx.check(R, len(frees) >= 1, f.where(), "the moving path releases the old block", key="C05.R2:%s:present" % fname)
        for c in frees:
            w = cfg.guarded(cfg.pt(c), lambda e, pol: isinstance(e, int) and rl.fact_nonnull(f, e, pol, rl.is_var(f, new_d)))
            ctx.check(R, w is None, f.where(c), "mi_free(p) only on the `newp != NULL` edge", key="C05.R2:%s:guard" % fname, witness=w)
            again = [x for x in frees if cfg.reaches(cfg.after(c), cfg.pt(x))]
            ctx.check(R, not again, f.where(c), "mi_free(p) at most once per path", key="C05.R2:%s:once" % fname)
            # copy precedes the free
            w = rl.precedes(f, rl.call_to(MEMCPY)(f), c)
            ctx.check(R, w is None, f.where(c), "the contents are copied before the old block is freed", key="C05.R2:%s:copy_first" % fname, witness=w)
            bad = []
            for r in f.all(kind="ReturnStmt"):
                if "val" not in f.nodes[r] or not cfg.reaches(cfg.after(c), cfg.pt(r)):
                    continue
                v = f.nodes[r]["val"]
                if rl.var_of(f, v) == p_d or f.cv(v) == 0:
                    bad.append(f.loc(r))
            ctx.check(R, not bad, f.where(c), "no path frees p and then returns p or a constant NULL", key="C05.R2:%s:ret" % fname, witness=bad)
            # p is not used after it was freed
            uses = [x for x in f.refs(p_d) if cfg.pt(x) is not None and cfg.reaches(cfg.after(c), cfg.pt(x))]
            ctx.check(R, not uses, f.where(c), "p is not touched after mi_free(p)", key="C05.R2:%s:uaf" % fname, witness=[f.loc(u) for u in uses])
        # every return of a non-NULL new block that differs from p passes the free (no leak of the old block) unless p == NULL
        for r in f.all(kind="ReturnStmt"):
            if "val" in f.nodes[r] and rl.var_of(f, f.nodes[r]["val"]) == new_d:
                news = [a for a, rhs, op in f.var_defs(new_d) if rhs is not None]
                def eok(lab, p, q):
                    return not any(rl.fact_null(f, e, pol, rl.is_var(f, new_d)) or rl.fact_null(f, e, pol, rl.is_var(f, p_d)) for e, pol in cfg.facts(lab))
                w = cfg.must_pass([cfg.after(a) for a in news], [cfg.pt(r)], lambda e: e in frees, edge_ok=eok)
                ctx.check(R, w is None, f.where(r), "when a new block is returned (p != NULL) the old block was freed", key="C05.R2:%s:leak" % fname, witness=w)
    g = prog.fn("mi_heap_reallocf")
    cfg = g.cfg
    p_d = g.param_id(1)
    news = [dd["d"] for _, dd in rl.var_init_from(g, lambda j: rl.is_call(g, j, "mi_heap_realloc"))]
    frees = [c for c in g.calls("mi_free") if rl.var_of(g, rl.arg(g, c, 0)) == p_d]
    ok = bool(news) and bool(frees)
    ctx.check(R, ok, g.where(), "reallocf = realloc + free of the old block", key="C05.R2:reallocf:shape")
    if ok:
        for c in frees:
            w1 = cfg.guarded(cfg.pt(c), lambda e, pol: isinstance(e, int) and rl.fact_null(g, e, pol, rl.is_var(g, news[0])))
            w2 = cfg.guarded(cfg.pt(c), lambda e, pol: isinstance(e, int) and rl.fact_nonnull(g, e, pol, rl.is_var(g, p_d)))
            ctx.check(R, w1 is None and w2 is None, g.where(c), "mi_free(p) exactly on `newp == NULL && p != NULL`", key="C05.R2:reallocf:guard", witness=w1 or w2)
        hit = [q for p, q, e, pol in rl.edges_with_fact(g, lambda e, pol: isinstance(e, int) and rl.fact_nonnull(g, e, pol, rl.is_var(g, p_d)))]
        okf = bool(hit) and all(cfg.must_pass([q], cfg.exit_points(), lambda e: e in frees) is None for q in hit)
        ctx.check(R, okf, g.where(), "on failure with p != NULL the old block is freed on every path", key="C05.R2:reallocf:must")
    ctx.floor(R, 14)


def _cmp_fact(f, want_op, lhs_d, rhs_pred):
    """edge fact `lhs_d <op> X` (normalised) with rhs_pred(X)"""
    def fact(e, pol):
        if not isinstance(e, int):
            return False
        c = rl.norm_cmp(f, e, pol)
        if c is None:
            return False
        op, l, r = c
        if rl.var_of(f, l) == lhs_d and op == want_op and rhs_pred(r):
            return True
        if rl.var_of(f, r) == lhs_d and rl.SWAP[op] == want_op and rhs_pred(l):
            return True
        return False
    return fact


def _mod_zero_fact(f, num_pred, den_d):
    """edge fact `(num % den_d) == 0`"""
    def fact(e, pol):
        if not isinstance(e, int):
            return False
        c = rl.norm_cmp(f, e, pol)
        if c is None or c[0] != "==":
            return False
        for a, b in ((c[1], c[2]), (c[2], c[1])):
            j = f.strip(a)
            n = f.nodes[j]
            if f.cv(b) == 0 and n["k"] == "BinaryOperator" and n["op"] == "%" and rl.var_of(f, n["c"][1]) == den_d and num_pred(n["c"][0]):
                return True
        return False
    return fact


def r3(ctx, prog):
    R = ctx.rule("C05.R3", "in-place return is guarded by newsize <= usable(p) (and newsize > 0); every return of the aligned re-allocation is aligned: "
                           "tests (p+offset) % alignment, or comes from an aligned allocator with the same (alignment, offset), or the plain-realloc shortcut requires offset % alignment == 0")
    f = prog.fn("_mi_heap_realloc_zero")
    cfg = f.cfg
    p_d, ns_d, old_d, new_d = anchors(f)
    n = 0
    for r in f.all(kind="ReturnStmt"):
        if "val" in f.nodes[r] and rl.var_of(f, f.nodes[r]["val"]) == p_d:
            n += 1
            w = cfg.guarded(cfg.pt(r), _cmp_fact(f, "<=", ns_d, lambda x: rl.var_of(f, x) == old_d))
            ctx.check(R, w is None, f.where(r), "`return p` only when newsize <= usable(p)", key="C05.R3:plain:fits", witness=w)
            w = cfg.guarded(cfg.pt(r), _cmp_fact(f, ">", ns_d, lambda x: f.cv(x) == 0))
            ctx.check(R, w is None, f.where(r), "`return p` only when newsize > 0 (realloc(NULL,0) must allocate)", key="C05.R3:plain:positive", witness=w)
    if n == 0:
        ctx.broke("C05.R3: no in-place return in _mi_heap_realloc_zero")
    # the size every decision is based on is the alignment-aware usable size of p
    for fname in BODIES:
        h = prog.fn(fname)
        hp, hns, hold, hnew = anchors(h)
        defs = [rhs for a, rhs, op in h.var_defs(hold) if rhs is not None]
        ok = len(defs) == 1 and rl.is_call(h, h.strip(defs[0]), ("_mi_usable_size", "mi_usable_size")) and h.is_ref(h.nodes[h.strip(defs[0])]["args"][0], hp)
        ctx.check(R, ok, h.where(), "the old size is %s: must be (_)mi_usable_size(p), which accounts for interior (aligned) pointers — a raw page/block size over-estimates it and the "
                  "in-place path would hand out bytes of the next block" % (h.text(defs[0])[:70] if defs else "?"), key="C05.R3:%s:usable" % fname)
    g = prog.fn("mi_heap_realloc_zero_aligned_at")
    cfg = g.cfg
    p_d, ns_d, old_d, new_d = anchors(g)
    al_d = next(g.param_id(k) for k, p in enumerate(g.d["params"]) if p["n"] == "alignment" or k == 3)
    of_d = next(g.param_id(k) for k, p in enumerate(g.d["params"]) if p["n"] == "offset" or k == 4)
    def same_al_off(call):
        args = g.nodes[call]["args"]
        ds = [rl.var_of(g, a) for a in args]
        return al_d in ds and of_d in ds and ds.index(of_d) == ds.index(al_d) + 1
    # what is returned: the expression itself, or — for a result variable (also the result of an inlined helper) — each value it is given
    returned = []
    for r in g.all(kind="ReturnStmt"):
        if "val" not in g.nodes[r] or g.nodes[r].get("inl_ret"):
            continue
        v0 = g.nodes[r]["val"]
        d0 = rl.var_of(g, v0)
        defs0 = [(a, rhs) for a, rhs, op in g.var_defs(d0) if rhs is not None and op in ("=", "decl")] if d0 not in (None, p_d, new_d) and d0 not in g.pids else []
        if defs0:
            returned += [(a, rhs) for a, rhs in defs0]
        else:
            returned.append((r, v0))
    for r, v0 in returned:
        v = g.strip(v0)
        vn = g.nodes[v]
        site = g.where(r)
        if g.cv(v) == 0:
            ctx.ok(R, site, "returns NULL (failure): nothing to align")
        elif vn["k"] == "CallExpr" and vn.get("callee") == "_mi_heap_realloc_zero":
            fact_off = _mod_zero_fact(g, lambda x: rl.var_of(g, x) == of_d, al_d)
            fact_al0 = lambda e, pol: isinstance(e, int) and rl.fact_null(g, e, pol, rl.is_var(g, al_d))
            w = cfg.guarded(cfg.pt(r), lambda e, pol: fact_off(e, pol) or fact_al0(e, pol))
            ctx.check(R, w is None, site, "plain-realloc shortcut only when offset % alignment == 0 (a naturally aligned block then satisfies the offset too)",
                      key="C05.R3:mi_heap_realloc_zero_aligned_at:shortcut", witness=w)
            maxal = prog.const("MI_MAX_ALIGN_SIZE")
            w = cfg.guarded(cfg.pt(r), _cmp_fact(g, "<=", al_d, lambda x: g.cv(x) is not None and g.cv(x) <= 8))
            ctx.check(R, w is None, site, "plain-realloc shortcut only for alignment <= 8 (every block is 8-aligned)", key="C05.R3:aligned_at:shortcut:small", witness=w)
        elif vn["k"] == "CallExpr":
            ctx.check(R, same_al_off(v), site, "block comes from %s called with the same (alignment, offset)" % vn.get("callee"), key="C05.R3:aligned_at:alloc")
        elif rl.var_of(g, v) == p_d:
            w = cfg.guarded(cfg.pt(r), _mod_zero_fact(g, lambda x: g.mentions_decl(x, p_d) and g.mentions_decl(x, of_d), al_d))
            ctx.check(R, w is None, site, "`return p` only when ((uintptr_t)p + offset) % alignment == 0", key="C05.R3:aligned_at:inplace:aligned", witness=w)
            w = cfg.guarded(cfg.pt(r), _cmp_fact(g, "<=", ns_d, lambda x: rl.var_of(g, x) == old_d))
            ctx.check(R, w is None, site, "`return p` only when newsize <= usable(p)", key="C05.R3:aligned_at:inplace:fits", witness=w)
        elif rl.var_of(g, v) == new_d:
            defs = [rhs for a, rhs, op in g.var_defs(new_d) if rhs is not None]
            ok = bool(defs) and all(rl.is_call(g, g.strip(d)) and same_al_off(g.strip(d)) for d in defs)
            ctx.check(R, ok, site, "the new block comes from an aligned allocator called with the same (alignment, offset)", key="C05.R3:aligned_at:newp")
        else:
            ctx.fail(R, site, "unclassified return value %s" % g.text(v), key="C05.R3:aligned_at:other")
    h = prog.fn("mi_heap_realloc_zero_aligned")
    cfg = h.cfg
    al_d = next(h.param_id(k) for k, p in enumerate(h.d["params"]) if p["n"] == "alignment" or k == 3)
    for c in h.calls("_mi_heap_realloc_zero"):
        w = cfg.guarded(cfg.pt(c), _cmp_fact(h, "<=", al_d, lambda x: h.cv(x) is not None and h.cv(x) <= 8))
        ctx.check(R, w is None, h.where(c), "offset-less variant: plain realloc only for alignment <= 8", key="C05.R3:aligned:shortcut", witness=w)
    for c in h.calls("mi_heap_realloc_zero_aligned_at"):
        offs = rl.values_of(h, rl.arg(h, c, 4))
        ok = any(h.nodes[o]["k"] == "BinaryOperator" and h.nodes[o]["op"] == "%" and rl.var_of(h, h.nodes[o]["c"][1]) == al_d for o in offs)
        ctx.check(R, ok, h.where(c), "offset-less variant keeps the previous block's offset p % alignment", key="C05.R3:aligned:offset")
    ctx.floor(R, 9)


def r4(ctx, prog):
    R = ctx.rule("C05.R4", "mi_expand never allocates or frees, returns only p or NULL, and succeeds only when newsize <= usable(p)")
    f = prog.fn("mi_expand")
    reach = prog.reachable(["mi_expand"], cut={"_mi_error_message", "_mi_warning_message", "_mi_assert_fail"})
    bad = sorted(reach & {"mi_free", "_mi_page_malloc_zero", "_mi_malloc_generic", "mi_heap_malloc", "_mi_heap_malloc_zero", "mi_free_generic_mt", "mi_free_block_local"})
    ctx.check(R, not bad, f.where(), "call graph of mi_expand contains no allocate/free function %s" % bad, key="C05.R4:effects")
    p_d = f.param_id(0)
    for r in f.all(kind="ReturnStmt"):
        v = f.nodes[r].get("val")
        ok = v is not None and (f.cv(v) == 0 or rl.var_of(f, v) == p_d)
        ctx.check(R, ok, f.where(r), "returns p or NULL (%s)" % f.text(v), key="C05.R4:ret")
        if v is not None and rl.var_of(f, v) == p_d:
            olds = [dd["d"] for _, dd in rl.var_init_from(f, lambda j: rl.is_call(f, j, ("_mi_usable_size", "mi_usable_size")))]
            w = f.cfg.guarded(f.cfg.pt(r), _cmp_fact(f, "<=", f.param_id(1), lambda x: rl.var_of(f, x) in olds)) if olds else ["no usable size"]
            ctx.check(R, w is None, f.where(r), "`return p` only when newsize <= usable(p)", key="C05.R4:fits", witness=w)
    ctx.floor(R, 2)


def r6(ctx, prog):
    R = ctx.rule("C05.R6", "the copied prefix stays: once the old contents were copied into the new block nothing writes into the new block any more before it is returned "
                           "(the zeroing of the grown tail starts a word *inside* the copied prefix, so it has to come first)")
    WRITERS = MEMCPY + ("_mi_memzero", "_mi_memzero_aligned", "memset", "_mi_memset", "_mi_memset_aligned")
    for fname in BODIES:
        f = prog.fn(fname)
        cfg = f.cfg
        p_d, ns_d, old_d, new_d = anchors(f)
        copies = [c for c in f.calls(MEMCPY) if rl.var_of(f, rl.arg(f, c, 0)) == new_d]
        if not copies:
            ctx.broke("C05.R6: no copy into the new block in %s" % fname)
            continue
        for c in copies:
            bad = []
            for pt in cfg.reach([cfg.after(c)]):
                e = cfg.elem_at(pt)
                if e is None or e == c:
                    continue
                n = f.nodes[e]
                if n["k"] == "CallExpr" and n.get("callee") in WRITERS and f.mentions_decl(n["args"][0], new_d):
                    bad.append(e)
                elif n["k"] == "CallExpr" and n.get("callee") in prog.fns and n.get("callee") not in ("mi_free", "mi_usable_size", "_mi_usable_size") and \
                        prog.fns[n["callee"]].d.get("static") and any(rl.var_of(f, a) == new_d for a in n["args"]):
                    bad.append(e)    # a private helper that receives the new block after the copy (may write into it)
                elif n["k"] in ("BinaryOperator", "CompoundAssignOperator") and (n["op"] == "=" or n["k"] == "CompoundAssignOperator"):
                    l = f.strip(n["c"][0])
                    if f.nodes[l]["k"] in ("ArraySubscriptExpr", "UnaryOperator") and f.mentions_decl(l, new_d) and f.nodes[l].get("op", "*") == "*":
                        bad.append(e)
            ctx.check(R, not bad, f.where(c), "no write into the new block after the copy%s" % (": " + f.loc(bad[0]) + " " + f.text(bad[0])[:60] if bad else ""), key="C05.R6:%s" % fname)
    ctx.floor(R, 2)


def r7(ctx, prog):
    R = ctx.rule("C05.R7", "a failed re-allocation leaves the caller's reference intact: mi_reallocarr stores into the caller's pointer slot only the new block of a successful "
                           "re-allocation (never the raw result: on failure the slot would become NULL and the still valid old block unreachable)")
    import shared
    shared.reallocarr_store(ctx, R, prog)
    ctx.floor(R, 1)


def run(ctx):
    ctx.explanation = ("Static decision of C05's code-shaped necessary conditions on every CFG path of the two re-allocation bodies, reallocf and mi_expand: "
                       "copy bounds (min idiom), guarded/exactly-once/never-before-return free of the old block, guards of the in-place return, alignment "
                       "provenance of every returned pointer of the aligned variant, effect-freedom of mi_expand. NOT decided: byte equality of contents.")
    for c in (["REL"] if ctx.tier == "quick" else ["REL", "SEC", "DBG"]):
        prog = ctx.prog(c)
        n0 = len(ctx.instances)
        r1(ctx, prog); r2(ctx, prog); r3(ctx, prog); r6(ctx, prog); r7(ctx, prog)
        if c == "REL":
            r4(ctx, prog)
        if c != "REL":
            for i in ctx.instances[n0:]:
                i["site"] += " [%s]" % c
                if not i["ok"]:
                    i["key"] += ":" + c
