"""C18 — purge after the delay without a forced collect (DESIGN §4 C18). Level: other (clause-level).

Decided: the expiry tests of the three purge drivers agree in orientation (R1), non-forced purge attempts are
reachable from the ordinary free/alloc/collect paths (R2), the three delay regimes (<0, 0, >0) (R3), decommit-or-reset
selection (R4). Not decided: when in wall-clock time memory is returned.
"""
import rl
from facts import AnalysisBroken

LEVEL = "other"

DRIVERS = {  # function -> (work callee reached when a purge is due)
    "mi_segment_try_purge": "mi_segment_purge",
    "mi_arena_try_purge": "mi_arena_purge_range",
    "mi_arenas_try_purge": "mi_arena_try_purge",
}


def now_values(f):
    """declaration ids that hold the current time: locals initialised from _mi_clock_now(), parameters of type mi_msecs_t"""
    ds = set()
    for ds_, dd in rl.var_init_from(f, lambda j: rl.is_call(f, j, "_mi_clock_now")):
        ds.add(dd["d"])
    for k, p in enumerate(f.d["params"]):
        if p["t"] == "mi_msecs_t":
            ds.add(f.param_id(k))
    return ds


def r1(ctx, prog):
    R = ctx.rule("C18.R1", "sibling purge drivers skip on a timestamp exactly when the expiry lies in the future: the edge taken when "
                           "`expire <= now` can reach the purge work, the edge taken when `expire > now` (not forced) cannot")
    for name, work in DRIVERS.items():
        f = prog.fn(name)
        nows = now_values(f)
        cfg = f.cfg
        n = 0
        for p, outs in cfg.edges.items():
            for q, lab in outs:
              for fa in cfg.facts(lab):
                c = rl.norm_cmp(f, fa[0], fa[1])
                if c is None or c[0] in ("==", "!="):
                    continue
                op, l, r = c
                ld, rd = rl.var_of(f, l), rl.var_of(f, r)
                if rd in nows and ld not in nows:
                    pass
                elif ld in nows and rd not in nows:
                    op, l, r = rl.SWAP[op], r, l
                else:
                    continue
                # now the fact reads:  <expire-expression> op now
                if f.cv(l) is not None:
                    continue
                n += 1
                reaches = rl.can_reach_call(f, q, lambda m: m.get("callee") == work)
                site = f.where(fa[0])
                if op in ("<", "<="):
                    ctx.check(R, reaches, site, "edge with `%s %s now` (expired) must be able to reach %s" % (f.text(l), op, work),
                              key="C18.R1:%s" % name)
                elif op == ">":
                    ctx.check(R, not reaches, site, "edge with `%s > now` (expiry in the future) must skip %s" % (f.text(l), work),
                              key="C18.R1:%s" % name)
                else:
                    ctx.ok(R, site, "edge with `%s >= now` (boundary) — not judged" % f.text(l))
        if n == 0:
            ctx.broke("C18.R1: no expiry-vs-now comparison found in %s" % name)
    ctx.floor(R, 6)


def r2(ctx, prog):
    R = ctx.rule("C18.R2", "a purge attempt with force=false is reached from ordinary activity: page free, page allocation, arena free, normal collect")
    # direct call sites with a constant-false force argument
    wanted = {"_mi_segment_page_free": ("mi_segment_try_purge", 1), "mi_segments_page_alloc": ("mi_segment_try_purge", 1),
              "mi_segment_try_reclaim": ("mi_segment_try_purge", 1), "_mi_arena_free": ("mi_arenas_try_purge", 0)}
    for fname, (callee, k) in wanted.items():
        f = prog.fn(fname)
        cs = [c for c in f.calls(callee) if f.cv(rl.arg(f, c, k)) == 0]
        ctx.check(R, len(cs) >= 1, f.where(), "%s calls %s(force=false)" % (fname, callee), key="C18.R2:%s" % fname)
    # arena free: the non-forced purge is on every non-error path after the blocks were released / the OS memory freed
    f = prog.fn("_mi_arena_free")
    cfg = f.cfg
    starts = [cfg.after(c) for c in f.calls(("_mi_os_free", "_mi_bitmap_unclaim_across"))]
    w = cfg.must_pass(starts, cfg.exit_points(), rl.call_to(("mi_arenas_try_purge", "_mi_error_message"))(f))
    ctx.check(R, w is None, f.where(), "after releasing, every non-error path calls mi_arenas_try_purge", key="C18.R2:_mi_arena_free:path", witness=w)
    # forwarded force flags are parameters, not constants: collect(MI_NORMAL) -> force=false
    for fname, callee, k in (("_mi_arenas_collect", "mi_arenas_try_purge", 0), ("_mi_abandoned_collect", "mi_segment_try_purge", 1)):
        f = prog.fn(fname)
        for c in f.calls(callee):
            a = rl.arg(f, c, k)
            ctx.check(R, rl.var_of(f, a) in f.pids, f.where(c), "%s forwards its own force parameter to %s (%s)" % (fname, callee, f.text(a)),
                      key="C18.R2:%s:forward" % fname)
    f = prog.fn("mi_heap_collect_ex")
    for callee in ("_mi_abandoned_collect", "_mi_arenas_collect"):
        for c in f.calls(callee):
            args = f.nodes[c]["args"]
            forced = [a for a in args if f.nodes[f.strip(a)].get("t") in ("int", "_Bool") and f.cv(a) == 1]
            ctx.check(R, not forced, f.where(c), "mi_heap_collect_ex does not pass a constant `true` force to %s: %s" % (callee, f.text(c)),
                      key="C18.R2:collect:%s" % callee)
        ctx.check(R, any(True for _ in f.calls(callee)), f.where(), "mi_heap_collect_ex calls %s" % callee, key="C18.R2:collect:has:%s" % callee)
    # page free path reaches _mi_segment_page_free
    for src, dst in (("_mi_page_free", "_mi_segment_page_free"), ("mi_free", "_mi_page_free"), ("_mi_page_retire", "_mi_page_free"),
                     ("_mi_segment_page_alloc", "mi_segment_try_purge")):
        path = prog.call_path(src, dst)
        ctx.check(R, path is not None, prog.fn(src).where(), "%s reaches %s (%s)" % (src, dst, " -> ".join(path or [])), key="C18.R2:reach:%s" % src)
    ctx.floor(R, 12)


def r3(ctx, prog):
    R = ctx.rule("C18.R3", "delay regimes: delay<0 disables purging before any effect; delay==0 purges immediately; arena delay = purge_delay*arena_purge_mult")
    # arena delay expression
    f = prog.fn("mi_arena_purge_delay")
    rets = list(f.all(kind="ReturnStmt"))
    ok = any(rl.mentions_option(f, r, "mi_option_purge_delay") and rl.mentions_option(f, r, "mi_option_arena_purge_mult") and
             any(f.nodes[x]["k"] == "BinaryOperator" and f.nodes[x]["op"] == "*" for x in f.walk(r)) for r in rets)
    ctx.check(R, ok, f.where(), "returns mi_option_get(purge_delay) * mi_option_get(arena_purge_mult)", key="C18.R3:mi_arena_purge_delay")
    # arena schedule: delay<0 returns before anything else; delay==0 purges directly
    f = prog.fn("mi_arena_schedule_purge")
    cfg = f.cfg
    dl = [dd["d"] for _, dd in rl.var_init_from(f, lambda j: rl.is_call(f, j, "mi_arena_purge_delay"))]
    if not dl:
        ctx.broke("C18.R3: mi_arena_schedule_purge has no local initialised from mi_arena_purge_delay()")
    else:
        d = dl[0]
        def nonneg(e, pol):
            if not isinstance(e, int):
                return False
            return rl.establishes(f, e, pol, ">=", rl.is_local(f, d), rl.is_const(f, lambda v: v == 0))
        for c in list(f.calls(("mi_arena_purge", "_mi_bitmap_claim_across"))) + [x for x in f.all(kind="AtomicExpr")]:
            w = cfg.guarded(cfg.pt(c), nonneg)
            ctx.check(R, w is None, f.where(c), "effect `%s` only on the `delay >= 0` edge" % f.text(c)[:60], key="C18.R3:arena_schedule:neg", witness=w)
        # every path that is consistent with delay == 0 (no edge on it says delay != 0, < 0 or > 0) runs the purge
        nonzero = lambda e, pol: rl.rel(f, e, pol, rl.is_local(f, d), rl.is_const(f, lambda v: v == 0)) in ("!=", "<", ">")
        ok = cfg.must_pass([cfg.entry], cfg.exit_points(), rl.call_to("mi_arena_purge")(f), edge_ok=rl.no_contradiction(f, nonzero)) is None
        ctx.check(R, ok, f.where(), "on the `delay == 0` edge mi_arena_purge runs immediately on every path", key="C18.R3:arena_schedule:zero")
    # os purge: first decision is purge_delay < 0 -> return false
    f = prog.fn("_mi_os_purge_ex")
    cfg = f.cfg
    def allowed(e, pol):
        if not isinstance(e, int):
            return False
        return rl.establishes(f, e, pol, ">=", lambda j: rl.is_option_get(f, j, "mi_option_purge_delay"), rl.is_const(f, lambda v: v == 0))
    for c in f.calls(("mi_os_decommit_ex", "_mi_os_reset", "_mi_os_decommit")):
        w = cfg.guarded(cfg.pt(c), allowed)
        ctx.check(R, w is None, f.where(c), "%s only when purge_delay >= 0" % f.nodes[c]["callee"], key="C18.R3:_mi_os_purge_ex:neg", witness=w)
    # segment: allow_purge computed from purge_delay >= 0; schedule returns on !allow_purge; ==0 -> immediate
    f = prog.fn("mi_segment_os_alloc")
    st = [(a, rhs) for a, l, rhs, op in f.field_stores("allow_purge") if rhs is not None]
    ok = bool(st) and all(any(rl.establishes(f, x, pol, ">=", lambda j: rl.is_option_get(f, j, "mi_option_purge_delay"), rl.is_const(f, lambda v: v == 0))
                              for x, pol in rl.facts_of(f, rhs)) for a, rhs in st)
    ctx.check(R, ok, f.where(), "segment->allow_purge requires mi_option_get(purge_delay) >= 0", key="C18.R3:allow_purge")
    for fname, effects in (("mi_segment_schedule_purge", ("mi_segment_purge", "mi_commit_mask_set", "mi_segment_try_purge")),
                           ("mi_segment_try_purge", ("mi_segment_purge",))):
        f = prog.fn(fname)
        cfg = f.cfg
        for c in f.calls(effects):
            w = cfg.guarded(cfg.pt(c), lambda e, pol: isinstance(e, int) and pol and f.nodes[f.strip(e)]["k"] == "MemberExpr" and f.nodes[f.strip(e)]["fld"] == "allow_purge")
            ctx.check(R, w is None, f.where(c), "%s only when segment->allow_purge" % f.nodes[c]["callee"], key="C18.R3:%s:allow" % fname, witness=w)
    f = prog.fn("mi_segment_schedule_purge")
    cfg = f.cfg
    nonzero = lambda e, pol: rl.rel(f, e, pol, lambda j: rl.is_option_get(f, j, "mi_option_purge_delay"), rl.is_const(f, lambda v: v == 0)) in ("!=", "<", ">")
    purgeable = lambda e, pol: (not pol) and f.nodes[f.strip(e)]["k"] == "MemberExpr" and f.nodes[f.strip(e)]["fld"] == "allow_purge"
    ok = cfg.must_pass([cfg.entry], cfg.exit_points(), rl.call_to("mi_segment_purge")(f), edge_ok=rl.no_contradiction(f, lambda e, pol: nonzero(e, pol) or purgeable(e, pol))) is None
    ctx.check(R, ok, f.where(), "on the `purge_delay == 0` edge mi_segment_purge runs immediately", key="C18.R3:segment_schedule:zero")
    # a positive delay sets an expiry from now + delay
    st = [(a, rhs) for a, l, rhs, op in f.field_stores("purge_expire") if rhs is not None and op == "="]
    ok = any(rl.mentions_option(f, rhs, "mi_option_purge_delay") for a, rhs in st)
    ctx.check(R, ok, f.where(), "segment->purge_expire = now + purge_delay on first scheduling", key="C18.R3:segment_schedule:expire")
    ctx.floor(R, 10)


def r4(ctx, prog):
    R = ctx.rule("C18.R4", "_mi_os_purge_ex decommits iff purge_decommits (and not preloading), otherwise resets only when allowed")
    f = prog.fn("_mi_os_purge_ex")
    cfg = f.cfg
    for c in f.calls(("mi_os_decommit_ex", "_mi_os_decommit")):
        w = cfg.guarded(cfg.pt(c), lambda e, pol: isinstance(e, int) and pol and rl.is_option_get(f, e, "mi_option_purge_decommits"))
        ctx.check(R, w is None, f.where(c), "decommit only on the purge_decommits edge", key="C18.R4:decommit", witness=w)
    for c in f.calls("_mi_os_reset"):
        w = cfg.guarded(cfg.pt(c), lambda e, pol: isinstance(e, int) and pol and rl.var_of(f, e) == f.param_id(2))
        ctx.check(R, w is None, f.where(c), "reset only when allow_reset", key="C18.R4:reset", witness=w)
    ctx.check(R, any(True for _ in f.calls(("mi_os_decommit_ex", "_mi_os_decommit"))) and any(True for _ in f.calls("_mi_os_reset")),
              f.where(), "both mechanisms (decommit, reset) are present", key="C18.R4:both")
    ctx.floor(R, 3)


def r5(ctx, prog):
    R = ctx.rule("C18.R5", "a forced purge is never skipped on an expiry hint: expiry-decided early returns of the arena purge drivers lie behind `!force`")
    import shared
    shared.forced_purge_not_skipped(ctx, R, prog)
    ctx.floor(R, 3)


def r6(ctx, prog):
    R = ctx.rule("C18.R6", "an arena's purge expiry is armed only from 0 when purges are scheduled (never pushed later): the global expiry is armed on exactly that transition, so a later arena "
                           "expiry would outlive the global one, which is then reset with work still pending")
    f = prog.fn("mi_arena_schedule_purge")
    cas = [e for e in f.all(kind="AtomicExpr") if f.nodes[e]["aop"].startswith("cas") and f.mentions_field(f.nodes[e]["ptr"], "purge_expire")]
    st = [e for e in f.all(kind="AtomicExpr") if f.nodes[e]["aop"] in ("store", "exchange", "fetch_add") and f.mentions_field(f.nodes[e]["ptr"], "purge_expire")]
    ctx.check(R, len(cas) >= 1 and not st, f.where(), "the arena expiry is changed only by CAS here", key="C18.R6:shape")
    import C02
    for e in cas:
        ev = C02.expected_var(f, e)
        defs = rl.reaching_defs(f, ev, e) if ev is not None else []
        ok = bool(defs) and all(rhs is not None and f.cv(rhs) == 0 for a, rhs, op in defs)
        ctx.check(R, ok, f.where(e), "CAS on arena->purge_expire expects 0 (arming), it never replaces a pending expiry", key="C18.R6:from_zero")
        # and its success edge arms the global expiry
        succ = [q for p, q, x, pol in rl.edges_with_fact(f, lambda x, pol: isinstance(x, int) and pol and e in set(f.walk(x)))]
        glob = lambda y: f.nodes[y]["k"] == "AtomicExpr" and f.nodes[y]["aop"].startswith("cas") and "mi_arenas_purge_expire" in f.text(f.nodes[y]["ptr"])
        okg = bool(succ) and all(f.cfg.must_pass([q], f.cfg.exit_points(), glob) is None for q in succ)
        ctx.check(R, okg, f.where(e), "arming an arena arms the global expiry on every path", key="C18.R6:global")
    ctx.floor(R, 3)


def r7(ctx, prog):
    R = ctx.rule("C18.R7", "segment timer invariant (asserted by mi_segment_schedule_purge): purge_expire == 0 only with an empty purge_mask — the purge driver returns at once on "
                           "expire == 0, so clearing the timer while ranges are still scheduled leaves them committed for good; every `purge_expire = 0` is paired with emptying the mask")
    n = 0
    for f in prog.fns.values():
        for a, l, rhs, op in f.field_stores("purge_expire", "mi_segment_s"):
            if op != "=" or rhs is None or f.cv(rhs) != 0:
                continue
            n += 1
            empt = lambda e: rl.is_call(f, e, "mi_commit_mask_create_empty") and f.mentions_field(f.nodes[e]["args"][0], "purge_mask")
            refill = lambda e: rl.is_call(f, e, ("mi_commit_mask_set", "mi_commit_mask_create_intersect", "mi_commit_mask_create_full", "mi_commit_mask_create")) and \
                f.mentions_field(f.nodes[e]["args"][-1] if f.nodes[e]["callee"] != "mi_commit_mask_set" else f.nodes[e]["args"][0], "purge_mask")
            after = f.cfg.must_pass([f.cfg.after(a)], f.cfg.exit_points(), empt) is None
            before = rl.precedes(f, empt, a) is None and not any(refill(e) for e in [f.cfg.elem_at(p) for p in f.cfg.reach([f.cfg.entry])] if e is not None and f.cfg.reaches(f.cfg.after(e), f.cfg.pt(a)))
            ctx.check(R, after or before, f.where(a), "segment->purge_expire = 0 together with mi_commit_mask_create_empty(&segment->purge_mask) on every path", key="C18.R7:%s" % f.name)
    if n < 2:
        ctx.broke("C18.R7: %d stores of 0 to segment->purge_expire (2 confirmed: try_purge, os_alloc)" % n)
    # and the driver really does nothing while the timer is 0 (that is what makes the pairing necessary)
    g = prog.fn("mi_segment_try_purge")
    z = lambda e, pol: isinstance(e, int) and rl.establishes(g, e, pol, "==", rl.is_field(g, "purge_expire"), rl.is_const(g, lambda v: v == 0))
    hit = [q for p, q, e, pol in rl.edges_with_fact(g, z)]
    ok = bool(hit) and not any(rl.can_reach_call(g, q, lambda m: m.get("callee") == "mi_segment_purge") for q in hit)
    ctx.note("C18.R7: mi_segment_try_purge %s on purge_expire == 0" % ("returns without purging" if ok else "does not return early (pairing is then not required for progress)"))
    ctx.floor(R, 2)


def r8(ctx, prog):
    R = ctx.rule("C18.R8", "what is freed is what is scheduled: mi_segment_schedule_purge is called only by mi_segment_span_free for exactly the span it frees, and "
                           "coalescing frees its merged span with purging allowed (a page whose range is never scheduled stays committed until the whole segment goes)")
    callers = rl.callers_of(prog, "mi_segment_schedule_purge")
    for c in callers:
        ctx.check(R, c == "mi_segment_span_free", prog.fn(c).where(), "%s -> mi_segment_schedule_purge (only mi_segment_span_free schedules, with the span's own start and size: C13.R2)" % c,
                  key="C18.R8:caller:%s" % c)
    g = prog.fn("mi_segment_span_free_coalesce")
    sites = list(g.calls("mi_segment_span_free"))
    if not sites:
        ctx.broke("C18.R8: mi_segment_span_free_coalesce does not call mi_segment_span_free")
    for c in sites:
        k = next((i for i, p_ in enumerate(prog.fn("mi_segment_span_free").d["params"]) if p_["t"] in ("_Bool", "bool")), None)
        ctx.check(R, k is not None and g.cv(rl.arg(g, c, k)) == 1, g.where(c), "the coalesced span is freed with allow_purge = true", key="C18.R8:coalesce")
    ctx.floor(R, 2)


def run(ctx):
    ctx.explanation = ("Static decision of C18's code-shaped necessary conditions: orientation agreement of the expiry tests of the three purge "
                       "drivers (edge-fact analysis over their CFGs), reachability of force=false purge attempts from ordinary free/alloc/collect "
                       "paths (call graph + constant arguments + must-pass), the three delay regimes and the decommit/reset choice (guarded-by). "
                       "NOT decided: the wall-clock moment memory is returned; the expiry-extension heuristics.")
    for c in (["REL"] if ctx.tier == "quick" else ["REL", "SEC", "DBG"]):
        prog = ctx.prog(c)
        n0 = len(ctx.instances)
        r1(ctx, prog); r2(ctx, prog); r3(ctx, prog); r4(ctx, prog); r5(ctx, prog); r6(ctx, prog); r7(ctx, prog); r8(ctx, prog)
        if c != "REL":
            for i in ctx.instances[n0:]:
                i["site"] += " [%s]" % c
                if not i["ok"]:
                    i["key"] += ":" + c
